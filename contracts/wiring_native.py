"""Native replays / witness templates for the wiring layer (runs under /venv/bin/python on the real package).

A refuted wiring obligation has an abstract model (list lengths, flags, which hedge positions matter); it is concretised by
running the real function on a battery of small *witness templates* built from real components and judging the result with the
concrete interpretation of the ghost specification (DESIGN 7, step 2)."""
import copy
import itertools
import math


def _clean(d):
    import numpy as np
    return float(np.nan_to_num(np.float64(d), nan=0.0, neginf=0.0, posinf=1.0))


def _hedged(fl, hedges, d):
    """hedges applied from the one nearest the term outwards"""
    import numpy as np
    for h in reversed(hedges):
        d = np.float64(getattr(fl, h)().hedge(d))
    return d


HEDGE_NAMES = {"Very": "very", "Somewhat": "somewhat", "Not": "not", "Extremely": "extremely", "Seldom": "seldom", "Any": "any"}


def _engine(fl, enabled=(True, True, True)):
    outs = []
    for i, nm in enumerate("opq"):
        outs.append(fl.OutputVariable(name=nm, enabled=enabled[i], minimum=0.0, maximum=1.0, aggregation=fl.Maximum(), defuzzifier=fl.Centroid(100),
                                      terms=[fl.Triangle("u", 0.0, 0.5, 1.0), fl.Triangle("w", 0.25, 0.75, 1.0)]))
    e = fl.Engine(name="witness", input_variables=[fl.InputVariable(name="a", minimum=0.0, maximum=1.0, terms=[fl.Ramp("t", 0.0, 1.0)])],
                  output_variables=outs, rule_blocks=[])
    return e


def _templates():
    hs = [[], ["Very"], ["Not"], ["Somewhat", "Very"], ["Not", "Very"]]
    for n in (1, 2, 3):
        for vars_ in itertools.product("opq", repeat=n):
            for hsel in itertools.product(range(len(hs)), repeat=n):
                if sum(1 for h in hsel if h) > 2:
                    continue
                yield [(v, hs[h], "u" if i % 2 == 0 else "w") for i, (v, h) in enumerate(zip(vars_, hsel))]


def expected_contributions(fl, concl, d, enabled):
    """concrete interpretation of the ghost function `contributions`: the SAME d for every conclusion"""
    exp = {"o": [], "p": [], "q": []}
    for v, hedges, term in concl:
        if enabled["opq".index(v)]:
            exp[v].append((term, _clean(_hedged(fl, hedges, d))))
    return exp


def known_c07_1(concl, enabled):
    """region of known finding C07-1: a hedged conclusion on an enabled variable that is followed by another conclusion"""
    return any(hs and enabled["opq".index(v)] for v, hs, t in concl[:-1])


def replay_modify_case(fl, FA, text="o is very u and o is w", d=0.5, **kw):
    """the recorded witness of known finding C07-1"""
    e = _engine(fl)
    c = fl.Consequent(text); c.load(e)
    c.modify(d, fl.Minimum())
    got = [(a.term.name, float(a.degree)) for a in e.output_variables[0].fuzzy.terms]
    return {"failed": got != [("u", 0.25), ("w", 0.5)], "expected": [("u", 0.25), ("w", 0.5)], "observed": got, "call": f"Consequent('{text}').modify({d})"}


def replay_modify(fl, FA, vals=None, limit=4000, exclude_known=False, **kw):
    """Consequent.modify on witness templates: every conclusion contributes exactly its own hedged degree"""
    import numpy as np
    degrees = [0.5, 0.25, 1.0, 0.0, float("nan"), float("inf"), float("-inf")]
    flags = [(True, True, True), (True, False, True), (False, True, True)]
    n = 0
    for concl in _templates():
        for enabled in flags:
            if exclude_known and known_c07_1(concl, enabled):
                continue
            e = _engine(fl, enabled)
            text = " and ".join(f"{v} is {' '.join(HEDGE_NAMES[h] for h in hs)} {t}".replace("  ", " ") for v, hs, t in concl)
            c = fl.Consequent(text)
            try:
                c.load(e)
            except Exception as ex:  # noqa
                return {"failed": True, "expected": "consequent loads", "observed": f"{type(ex).__name__}: {ex}", "call": text}
            for d in degrees:
                n += 1
                if n > limit:
                    return {"failed": False, "cases": n}
                for ov in e.output_variables:
                    ov.fuzzy.clear()
                impl = fl.Minimum()
                deg_obj = np.array(d, dtype=float)          # the rule's activation degree as an array object: modify must not write into it
                try:
                    c.modify(deg_obj, impl)
                    if not (np.array_equal(deg_obj, np.array(d, dtype=float), equal_nan=True)):
                        return {"failed": True, "expected": f"the activation degree passed in stays {d}", "observed": float(deg_obj), "cases": n, "call": f"Consequent('{text}').modify(np.array({d}), Minimum()) changed the degree object of its caller"}
                except Exception as ex:  # noqa
                    return {"failed": True, "expected": "no exception for a loaded consequent", "observed": f"{type(ex).__name__}: {ex}", "call": f"Consequent('{text}').modify({d})"}
                exp = expected_contributions(fl, concl, d, enabled)
                for ov in e.output_variables:
                    got = [(a.term.name, float(a.degree)) for a in ov.fuzzy.terms]
                    ok = len(got) == len(exp[ov.name]) and all(g[0] == x[0] and FA.same(g[1], x[1]) for g, x in zip(got, exp[ov.name])) \
                        and all(a.implication is impl for a in ov.fuzzy.terms)
                    if not ok:
                        return {"failed": True, "expected": exp[ov.name], "observed": got, "cases": n,
                                "call": f"Consequent('{text}').modify({d}, Minimum()) with enabled={dict(zip('opq', enabled))}: fuzzy output of '{ov.name}'"}
            # the same consequent modified twice without clearing the fuzzy outputs in between (two triggers in one step, or a caller that keeps the first
            # contributions): each call adds its OWN activated terms - the earlier ones keep their degree and implication
            for ov in e.output_variables:
                ov.fuzzy.clear()
            i1, i2 = fl.Minimum(), fl.AlgebraicProduct()
            try:
                c.modify(np.float64(0.25), i1); first = [(ov.name, [(a.term.name, float(a.degree), a.implication) for a in ov.fuzzy.terms]) for ov in e.output_variables]
                c.modify(np.float64(0.75), i2)
            except Exception as ex:  # noqa
                return {"failed": True, "expected": "no exception for a loaded consequent", "observed": f"{type(ex).__name__}: {ex}", "call": f"Consequent('{text}').modify twice"}
            n += 1
            e1, e2 = expected_contributions(fl, concl, 0.25, enabled), expected_contributions(fl, concl, 0.75, enabled)
            for ov in e.output_variables:
                got = [(a.term.name, float(a.degree), type(a.implication).__name__) for a in ov.fuzzy.terms]
                want = [(t, x, "Minimum") for t, x in e1[ov.name]] + [(t, x, "AlgebraicProduct") for t, x in e2[ov.name]]
                ok = len(got) == len(want) and all(g[0] == w[0] and FA.same(g[1], w[1]) and g[2] == w[2] for g, w in zip(got, want)) and len({id(a) for a in ov.fuzzy.terms}) == len(ov.fuzzy.terms)
                if not ok and not known_c07_1(concl, enabled):
                    return {"failed": True, "expected": want, "observed": got, "cases": n,
                            "call": f"Consequent('{text}').modify(0.25, Minimum()) then .modify(0.75, AlgebraicProduct()) without clearing, enabled={dict(zip('opq', enabled))}: fuzzy output of '{ov.name}'"}
    return {"failed": False, "cases": n}


def replay_activated(fl, FA, vals=None, **kw):
    """Activated(term, degree, implication): degree stored cleaned (NaN, -inf -> 0; +inf -> 1), the caller's value is not modified"""
    import numpy as np
    t = fl.Triangle("u", 0.0, 0.5, 1.0); impl = fl.Minimum()
    cands = [float((vals or {}).get("d", 0.5)), 0.5, float("nan"), float("inf"), float("-inf"), 0.0, -0.25, 1.5]
    for d in cands:
        a = fl.Activated(t, d, impl)
        exp = _clean(d)
        if not (a.term is t and a.implication is impl and FA.same(float(a.degree), exp)):
            return {"failed": True, "expected": exp, "observed": float(a.degree), "call": f"Activated(t, {d}, impl).degree"}
    arr = np.array([0.5, np.nan, np.inf, -np.inf]); keep = arr.copy()
    a = fl.Activated(t, arr, impl)
    same_in = all(FA.same(x, y) for x, y in zip(arr, keep))
    if not same_in or not all(FA.same(x, _clean(y)) for x, y in zip(np.asarray(a.degree), keep)):
        return {"failed": True, "expected": {"degree": [_clean(y) for y in keep], "caller_array_unchanged": keep.tolist()},
                "observed": {"degree": np.asarray(a.degree).tolist(), "caller_array": arr.tolist()}, "call": "Activated(t, array, impl)"}
    return {"failed": False}


def replay_trigger(fl, FA, vals=None, **kw):
    """Rule.trigger on witness templates: an enabled loaded rule adds exactly the contributions for its own activation degree and is
    marked triggered iff that degree is positive; a disabled rule adds nothing"""
    import numpy as np
    n = 0
    for concl in itertools.islice(_templates(), 0, 400, 7):
        for rule_enabled in (True, False):
            for enabled in [(True, True, True), (True, False, True)]:
                if known_c07_1(concl, enabled):
                    continue
                for d in (0.5, 0.0, 1.0, float("nan"), -0.5):
                    e = _engine(fl, enabled)
                    text = " and ".join(f"{v} is {' '.join(HEDGE_NAMES[h] for h in hs)} {t}".replace("  ", " ") for v, hs, t in concl)
                    r = fl.Rule.create(f"if a is t then {text}", e)
                    r.enabled = rule_enabled
                    r.activation_degree = np.float64(d)
                    impl = fl.Minimum()
                    r.trigger(impl)
                    n += 1
                    exp = expected_contributions(fl, concl, d, enabled) if rule_enabled else {"o": [], "p": [], "q": []}
                    for ov in e.output_variables:
                        got = [(a.term.name, float(a.degree)) for a in ov.fuzzy.terms]
                        if not (len(got) == len(exp[ov.name]) and all(g[0] == x[0] and FA.same(g[1], x[1]) for g, x in zip(got, exp[ov.name]))):
                            return {"failed": True, "expected": exp[ov.name], "observed": got, "cases": n,
                                    "call": f"Rule('if a is t then {text}', enabled={rule_enabled}).trigger() at degree {d}, variables enabled {enabled}: fuzzy output of '{ov.name}'"}
                    trig = bool(np.all(r.triggered))
                    if trig != (rule_enabled and d > 0):
                        return {"failed": True, "expected": bool(rule_enabled and d > 0), "observed": trig, "cases": n, "call": f"triggered flag of rule 'then {text}' enabled={rule_enabled} degree={d}"}
    # "carrying ... the BLOCK's implication operator": whichever activation method triggers the rule, the activated terms hold the block's implication object
    for mk in (fl.General, lambda: fl.First(3, 0.0), lambda: fl.Last(3, 0.0), lambda: fl.Highest(3), lambda: fl.Lowest(3), fl.Proportional, lambda: fl.Threshold(">", 0.0)):
        e = _engine(fl)
        cj, dj, im = fl.Minimum(), fl.Maximum(), fl.AlgebraicProduct()
        rb = fl.RuleBlock(name="rb", conjunction=cj, disjunction=dj, implication=im, activation=mk(), rules=[fl.Rule.create("if a is t then o is u and p is w", e), fl.Rule.create("if a is not t then q is u", e)])
        e.rule_blocks.append(rb)
        e.input_variables[0].value = 0.25
        rb.activate()
        n += 1
        terms = [a for ov in e.output_variables for a in ov.fuzzy.terms]
        if len(terms) != 3 or not all(a.implication is im for a in terms):
            return {"failed": True, "expected": "3 activated terms, each carrying the block's implication operator AlgebraicProduct", "cases": n,
                    "observed": [(a.term.name, type(a.implication).__name__) for a in terms], "call": f"RuleBlock(conjunction=Minimum, disjunction=Maximum, implication=AlgebraicProduct, activation={rb.activation}).activate()"}
    return {"failed": False, "cases": n}


# ---------------------------------------------------------------------------------------------------- activation methods
def _select_reference(method, params, degs, loaded, enabled):
    """the property's definition of each activation method: returns (list of triggered rule indices in trigger order, final degrees)"""
    n = len(degs)
    idx = [i for i in range(n) if loaded[i]]
    d = list(degs)
    if method == "General":
        return idx, d
    if method in ("First", "Last"):
        order = idx if method == "First" else list(reversed(idx))
        out = []
        for i in order:
            if len(out) < params["rules"] and d[i] > 0 and d[i] >= params["threshold"]:
                out.append(i)
        return out, d
    if method in ("Highest", "Lowest"):
        pos = [i for i in idx if d[i] > 0]
        pos.sort(key=lambda i: ((-d[i]) if method == "Highest" else d[i], i))
        return pos[:max(0, params["rules"])], d
    if method == "Threshold":
        import operator
        op = {"<": operator.lt, "<=": operator.le, "==": operator.eq, "!=": operator.ne, ">=": operator.ge, ">": operator.gt}[params["comparator"]]
        return [i for i in idx if op(d[i], params["threshold"])], d
    if method == "Proportional":
        pos = [i for i in idx if d[i] > 0]
        tot = sum(d[i] for i in pos)
        for i in pos:
            d[i] = d[i] / tot
        return pos, d
    raise KeyError(method)


def _activation_cases(method, seed, budget):
    import random
    rng = random.Random(seed)
    vals = [0.0, 0.25, 0.5, 0.5, 0.75, 1.0, 0.4995, 0.999, float("nan")]
    if method in ("First", "Last"):
        plist = [dict(rules=r, threshold=t) for r in (0, 1, 2, 3, 9) for t in (0.0, 0.25, 0.5, 1.0)]
    elif method in ("Highest", "Lowest"):
        plist = [dict(rules=r) for r in (0, 1, 2, 3, 9)]
    elif method == "Threshold":
        plist = [dict(comparator=c, threshold=t) for c in ("<", "<=", "==", "!=", ">=", ">") for t in (0.0, 0.5, 0.25)]
    else:
        plist = [dict()]
    for _ in range(budget):
        n = rng.choice([1, 2, 3, 3, 4, 5, 8])
        degs = [rng.choice(vals) for _ in range(n)]
        loaded = [rng.random() > 0.15 for _ in range(n)]
        enabled = [rng.random() > 0.15 for _ in range(n)]
        yield rng.choice(plist), degs, loaded, enabled


def replay_activation(fl, FA, method="General", vals=None, seed=0, budget=400, **kw):
    """rule blocks of 1-8 rules with arbitrary degree vectors (ties, zeros, unloaded and disabled rules): the real activate() against
    the definition. Rule i is `if x_i is up then y is c_i` with x_i in [0,1] and `up` = Ramp(0,1), so its degree is the input value."""
    import numpy as np
    cases = 0
    seen = set()
    for params, degs, loaded, enabled in _activation_cases(method, seed, budget):
        n = len(degs)
        ins = [fl.InputVariable(name=f"x{i}", minimum=0.0, maximum=1.0, terms=[fl.Ramp("up", 0.0, 1.0)]) for i in range(n)]
        out = fl.OutputVariable(name="y", minimum=0.0, maximum=10.0, aggregation=None, defuzzifier=fl.WeightedAverage(),
                                terms=[fl.Constant(f"c{i}", float(i + 1)) for i in range(n)])
        act = getattr(fl, method)(**params)
        if cases % 3 == 2 and params:
            # an activation object that was constructed (or configured) with other parameters first and then given these by attribute assignment / configure():
            # the parameters in force are the current ones
            other = {"rules": 7, "threshold": 0.875, "comparator": "!="}
            act = getattr(fl, method)(**{k: other[k] for k in params})
            if cases % 2 == 0:
                for k_, v_ in params.items():
                    setattr(act, k_, fl.Threshold.Comparator(v_) if k_ == "comparator" else v_)
            else:
                fresh_ = getattr(fl, method)(**params)
                act.configure(fresh_.parameters())
                for k_, v_ in params.items():
                    if k_ != "comparator":
                        setattr(act, k_, v_)          # (configure() parses the printed text: the exact value is assigned afterwards)
        # every second case: each rule first concludes a DISABLED output variable `d` (which receives nothing) and then `y` - "exactly the selected rules
        # contribute" includes that a selected rule's contribution to `y` is not lost on the way
        two = cases % 2 == 1
        dis = fl.OutputVariable(name="d", enabled=False, minimum=0.0, maximum=1.0, aggregation=None, defuzzifier=fl.WeightedAverage(), terms=[fl.Constant("q", 1.0)])
        impl_obj = fl.AlgebraicProduct() if cases % 2 else None
        rb = fl.RuleBlock(name="rb", conjunction=fl.Minimum(), disjunction=fl.Maximum(), implication=impl_obj, activation=act,
                          rules=[fl.Rule.create(f"if x{i} is up then " + ("d is q and " if two else "") + f"y is c{i}") for i in range(n)])
        e = fl.Engine(name="w", input_variables=ins, output_variables=[out, dis] if two else [out], rule_blocks=[rb], load=False)
        for i, r in enumerate(rb.rules):
            if loaded[i]:
                r.load(e)
            r.enabled = enabled[i]
            r.triggered = np.array(True); r.activation_degree = np.float64(0.123)       # stale state from an earlier activation
        for i, v in enumerate(ins):
            v.value = degs[i]
        out.fuzzy.clear()
        try:
            rb.activate()
        except Exception as ex:  # noqa
            return {"failed": True, "expected": "no exception for scalar inputs", "observed": f"{type(ex).__name__}: {ex}", "call": f"{method}({params}) degrees={degs} loaded={loaded}"}
        cases += 1
        seen.add((method, tuple(sorted(params.items())), n, tuple(degs), tuple(loaded), tuple(enabled)))
        trig, dfin = _select_reference(method, params, degs, loaded, enabled)
        exp_terms = [(f"c{i}", _clean(dfin[i])) for i in trig if enabled[i]]
        got_terms = [(a.term.name, float(a.degree)) for a in out.fuzzy.terms]
        exp_flags = [bool(loaded[i] and i in trig and enabled[i] and dfin[i] > 0) for i in range(n)]
        got_flags = [bool(np.all(r.triggered)) for r in rb.rules]
        exp_deg = [float(dfin[i]) if loaded[i] else 0.0 for i in range(n)]
        got_deg = [float(r.activation_degree) for r in rb.rules]
        ok = (len(got_terms) == len(exp_terms) and all(g[0] == x[0] and FA.same(g[1], x[1]) for g, x in zip(got_terms, exp_terms))
              and got_flags == exp_flags and all(FA.same(a, b) for a, b in zip(got_deg, exp_deg)) and not dis.fuzzy.terms
              and all(a.implication is impl_obj for a in out.fuzzy.terms))          # the activated terms carry the block's implication operator (not another operator of the block)
        exp_terms = [(t, None if x != x else x) for t, x in exp_terms]; exp_deg = [None if x != x else x for x in exp_deg]        # JSON-friendly NaN
        got_deg = [None if x != x else x for x in got_deg]
        if not ok:
            return {"failed": True, "expected": {"terms": exp_terms, "triggered": exp_flags, "degrees": exp_deg},
                    "observed": {"terms": got_terms, "triggered": got_flags, "degrees": got_deg}, "cases": cases,
                    "call": f"{method}({params}).activate(block) with rule degrees {degs}, loaded {loaded}, enabled {enabled}" + (" (each rule concludes the disabled variable d first: `then d is q and y is c_i`)" if two else "")}
    # chained rules (one-pass methods): a rule whose antecedent reads the output variable sees the contributions of the rules evaluated before it
    if method in ("General", "First", "Last", "Threshold"):
        for x0, x2 in ((0.75, 0.5), (0.5, 0.25), (0.0, 0.5)):
            ins = [fl.InputVariable(name=f"x{i}", minimum=0.0, maximum=1.0, terms=[fl.Ramp("up", 0.0, 1.0)]) for i in range(3)]
            out = fl.OutputVariable(name="y", minimum=0.0, maximum=10.0, aggregation=fl.Maximum(), defuzzifier=fl.WeightedAverage(), terms=[fl.Constant(f"c{i}", float(i + 1)) for i in range(3)])
            act = {"General": fl.General, "First": lambda: fl.First(2, 0.0), "Last": lambda: fl.Last(2, 0.0), "Threshold": lambda: fl.Threshold(">", 0.0)}[method]()
            rb = fl.RuleBlock(name="rb", conjunction=None, disjunction=None, implication=None, activation=act,
                              rules=[fl.Rule.create("if x0 is up then y is c0"), fl.Rule.create("if y is c0 then y is c1"), fl.Rule.create("if x2 is up then y is c2")])
            e = fl.Engine(name="w", input_variables=ins, output_variables=[out], rule_blocks=[rb])
            ins[0].value, ins[1].value, ins[2].value = x0, 0.0, x2
            out.fuzzy.clear()
            rb.activate()
            cases += 1
            order = [2, 1, 0] if method == "Last" else [0, 1, 2]
            seen_c0, exp_terms, count = 0.0, [], 0
            for i in order:
                d = [x0, seen_c0, x2][i]
                sel = {"General": True, "First": count < 2 and d > 0, "Last": count < 2 and d > 0, "Threshold": d > 0}[method]
                if sel:
                    count += 1
                    exp_terms.append((f"c{i}", d))
                    if i == 0:
                        seen_c0 = max(seen_c0, d)
            got_terms = [(a.term.name, float(a.degree)) for a in out.fuzzy.terms]
            if got_terms != exp_terms:
                return {"failed": True, "expected": exp_terms, "observed": got_terms, "cases": cases,
                        "call": f"{act} on rules ['if x0 is up then y is c0', 'if y is c0 then y is c1', 'if x2 is up then y is c2'] with x0={x0}, x2={x2}: the second rule reads what the rules evaluated before it concluded"}
    # vector-incapable methods reject batches
    if method != "General":
        ins = [fl.InputVariable(name="x0", minimum=0.0, maximum=1.0, terms=[fl.Ramp("up", 0.0, 1.0)])]
        out = fl.OutputVariable(name="y", minimum=0.0, maximum=10.0, defuzzifier=fl.WeightedAverage(), terms=[fl.Constant("c0", 1.0)])
        rb = fl.RuleBlock(name="rb", activation=getattr(fl, method)(), rules=[fl.Rule.create("if x0 is up then y is c0")])
        e = fl.Engine(name="w", input_variables=ins, output_variables=[out], rule_blocks=[rb])
        ins[0].value = np.array([0.2, 0.8])
        try:
            rb.activate()
            return {"failed": True, "expected": "ValueError for a batch", "observed": "no exception", "call": f"{method}().activate(block) with a batch of 2 rows"}
        except ValueError:
            pass
    return {"failed": False, "cases": cases, "distinct": len(seen)}


# ---------------------------------------------------------------------------------------------------- antecedents (C06)
def _gen_tree(rng, depth, nvars):
    if depth == 0 or rng.random() < 0.25:
        v = rng.randrange(nvars)
        k = rng.choice([0, 0, 1, 2, 3])
        hs = [rng.choice(["very", "somewhat", "not", "extremely", "seldom"]) for _ in range(k)]
        if rng.random() < 0.12:
            return ("prop", v, hs + ["any"], None)
        return ("prop", v, hs, rng.choice(["lo", "hi"]))
    return (rng.choice(["and", "or"]), _gen_tree(rng, depth - 1, nvars), _gen_tree(rng, depth - 1, nvars))


def _print_tree(t, style, names, parent=None, right=False, sp=" "):
    if t[0] == "prop":
        _, v, hs, term = t
        txt = " ".join([names[v], "is"] + hs + ([term] if term else []))
        return f"({sp}{txt}{sp})" if style == "full" else txt
    prec = {"and": 2, "or": 1}
    l = _print_tree(t[1], style, names, t[0], False, sp); r = _print_tree(t[2], style, names, t[0], True, sp)
    txt = f"{l} {t[0]} {r}"
    need = parent is not None and (prec[t[0]] < prec[parent] or (prec[t[0]] == prec[parent] and right))
    if style == "full" or need or (style == "mixed" and parent is not None and hash(txt) % 3 == 0):
        return f"({sp}{txt}{sp})" if sp else f"({txt})"
    return txt


def _eval_tree(fl, t, vars_, conj, disj):
    """the documented grammar semantics, evaluated on the generated tree itself"""
    import numpy as np
    if t[0] == "prop":
        _, v, hs, term = t
        var = vars_[v]
        if not var.enabled:
            return np.float64(0.0)
        hmap = {"very": fl.Very, "somewhat": fl.Somewhat, "not": fl.Not, "extremely": fl.Extremely, "seldom": fl.Seldom, "any": fl.Any}
        if hs and hs[-1] == "any":
            d = np.float64(1.0); rest = hs[:-1]
        else:
            tm = [x for x in var.terms if x.name == term][0]
            if isinstance(var, fl.OutputVariable):
                d = np.float64(0.0)
                first = True
                for a in var.fuzzy.terms:
                    if a.term.name == term:
                        d = np.float64(a.degree) if first else np.float64((var.fuzzy.aggregation or fl.UnboundedSum()).compute(d, a.degree))
                        first = False
            else:
                d = np.float64(tm.membership(var.value))
            rest = hs
        for h in reversed(rest):
            d = np.float64(hmap[h]().hedge(d))
        return d
    a, b = _eval_tree(fl, t[1], vars_, conj, disj), _eval_tree(fl, t[2], vars_, conj, disj)
    return np.float64((conj if t[0] == "and" else disj).compute(a, b))


def replay_antecedent(fl, FA, vals=None, depth=3, seed=0, budget=600, **kw):
    """text -> tree -> value: rules generated from the grammar, loaded by the real parser, evaluated by the real activate_with,
    compared with the grammar semantics evaluated on the generated tree (non-commutative connectives expose swapped operands)"""
    import random
    import numpy as np
    rng = random.Random(seed)
    cases, seen = 0, set()
    conj = fl.NormLambda(lambda a, b: 0.75 * a + 0.25 * b * b)
    disj = fl.NormLambda(lambda a, b: np.maximum(a, 0.5 * b) + 0.125 * b)
    pairs = [(conj, disj), (fl.Minimum(), fl.Maximum()), (fl.AlgebraicProduct(), fl.BoundedSum())]
    for it in range(budget):
        nvars = rng.choice([1, 2, 3])
        ins = [fl.InputVariable(name=n, minimum=0.0, maximum=1.0, terms=[fl.Ramp("lo", 1.0, 0.0), fl.Ramp("hi", 0.0, 1.0)]) for n in "ABC"[:nvars - (1 if nvars == 3 else 0)]]
        outs = [fl.OutputVariable(name="Z", minimum=0.0, maximum=1.0, aggregation=rng.choice([fl.Maximum(), fl.UnboundedSum(), None]), defuzzifier=fl.Centroid(50),
                                  terms=[fl.Triangle("lo", 0.0, 0.25, 0.5), fl.Triangle("hi", 0.5, 0.75, 1.0)])]
        vars_ = ins + (outs if nvars == 3 else [])
        names = [v.name for v in vars_]
        tree = _gen_tree(rng, rng.randrange(0, depth + 1), len(vars_))
        style = rng.choice(["min", "full", "mixed"]); sp = rng.choice([" ", ""])
        text = _print_tree(tree, style, names, sp=sp)
        w = rng.choice([1.0, 0.5, 0.25, 2.0, 0.0])
        cj, dj = rng.choice(pairs)
        e = fl.Engine(name="w", input_variables=ins, output_variables=outs, rule_blocks=[])
        for v in ins:
            v.value = rng.choice([0.0, 0.25, 0.5, 0.75, 1.0, 0.3, float("nan")])
            v.enabled = rng.random() > 0.1
        for o in outs:
            for _ in range(rng.randrange(0, 4)):
                o.fuzzy.terms.append(fl.Activated(rng.choice(o.terms), rng.choice([0.25, 0.5, 0.75, 1.0]), fl.Minimum()))
        rule_text = f"if {text} then Z is lo" + (f" with {w}" if w != 1.0 else "")
        n_before = len(outs[0].fuzzy.terms)
        try:
            r = fl.Rule.create(rule_text, e)
            got = np.float64(r.activate_with(cj, dj))
        except Exception as ex:  # noqa
            return {"failed": True, "expected": "rule loads and evaluates", "observed": f"{type(ex).__name__}: {ex}", "call": rule_text, "cases": cases}
        exp = np.float64(w) * _eval_tree(fl, tree, vars_, cj, dj)
        cases += 1
        seen.add(text)
        # "the connectives are computed with the rule block's conjunction and disjunction operators": the same degree when the rule is activated through a rule
        # block by any activation method (Proportional normalises afterwards and is left to C08)
        if it % 4 == 0 and exp == exp:
            if not any(o.name == "W" for o in e.output_variables):          # an output variable no antecedent reads, for the rule that takes the quota
                e.output_variables.append(fl.OutputVariable(name="W", minimum=0.0, maximum=1.0, defuzzifier=fl.WeightedAverage(), terms=[fl.Constant("k", 1.0)]))
            always = fl.Rule.create(f"if {names[0]} is any then W is k", e)          # fires with degree 1 whenever its variable is enabled
            for mk, before in ((fl.General, False), (lambda: fl.First(5, 0.0), False), (lambda: fl.Last(5, 0.0), False), (lambda: fl.Highest(5), False), (lambda: fl.Lowest(5), False),
                               (lambda: fl.Threshold(">=", 0.0), False),
                               # methods that do NOT select the rule still compute its degree: the quota taken by an earlier rule, a threshold nothing reaches
                               (lambda: fl.First(1, 0.0), True), (lambda: fl.Threshold(">", 2.5), False), (lambda: fl.Highest(1), True)):
                act = mk()
                rb = fl.RuleBlock(name="rb", conjunction=cj, disjunction=dj, implication=fl.Minimum(), activation=act, rules=([always] if before else []) + [r])
                try:
                    r.deactivate()          # whatever an earlier evaluation left in the rule: the block's activation computes the degree anew
                    rb.activate()
                    via = np.float64(r.activation_degree)
                except Exception as ex:  # noqa
                    return {"failed": True, "expected": float(exp), "observed": f"{type(ex).__name__}: {ex}", "cases": cases, "call": f"RuleBlock(conjunction={type(cj).__name__}, disjunction={type(dj).__name__}, activation={act}).activate() on rule '{rule_text}'"}
                if not FA.same(via, exp, rel=1e-12, abs_=1e-12):
                    return {"failed": True, "expected": float(exp), "observed": float(via), "cases": cases,
                            "call": f"RuleBlock(conjunction={type(cj).__name__}, disjunction={type(dj).__name__}, activation={act}).activate() on rule '{rule_text}' inputs={[(v.name, None if v.value != v.value else float(v.value), v.enabled) for v in ins]}"}
                # the block activation appended the rule's conclusion to Z: undo, so that the antecedent of the next evaluation sees the same fuzzy output
                if r.enabled and len(outs[0].fuzzy.terms) > n_before:
                    del outs[0].fuzzy.terms[n_before:]
        # "a loaded rule": loading leaves the rule's own text as written, and loading the unedited rule again (reload_rules, Engine.restart, a second
        # load_rules) gives the same reading
        kept = " ".join(r.antecedent.text.replace("(", " ( ").replace(")", " ) ").split()) == " ".join(text.replace("(", " ( ").replace(")", " ) ").split())
        try:
            r.load(e)
            again = np.float64(r.activate_with(cj, dj))
        except Exception as ex:  # noqa
            return {"failed": True, "expected": "rule loads a second time", "observed": f"{type(ex).__name__}: {ex}", "call": rule_text, "cases": cases}
        if not kept or not FA.same(again, exp, rel=1e-12, abs_=1e-12):
            return {"failed": True, "expected": {"antecedent text": text, "value": None if exp != exp else float(exp)},
                    "observed": {"antecedent text after load": r.antecedent.text, "value after a second load": None if again != again else float(again)}, "cases": cases,
                    "call": f"Rule('{rule_text}') loaded, then loaded again unedited; activate_with({type(cj).__name__}, {type(dj).__name__})"}
        if not (FA.same(got, exp, rel=1e-12, abs_=1e-12) and FA.same(np.float64(r.activation_degree), exp, rel=1e-12, abs_=1e-12)):
            return {"failed": True, "expected": None if exp != exp else float(exp), "observed": None if got != got else float(got), "cases": cases,
                    "call": f"Rule('{rule_text}').activate_with({type(cj).__name__}, {type(dj).__name__}) inputs={[(v.name, None if v.value != v.value else float(v.value), v.enabled) for v in ins]} "
                            f"Z.fuzzy={[(a.term.name, float(a.degree)) for o in outs for a in o.fuzzy.terms]}"}
    return {"failed": False, "cases": cases, "distinct": len(seen)}


# ---------------------------------------------------------------------------------------------------- output cascade (C12)
def _step(s, d, lp, dflt, lr, mn, mx):
    """Appendix A.4: step(s, d) = commit(d if not nan(d) else (s if lock_previous else nan))"""
    import numpy as np
    v = d if not np.isnan(d) else (s if lp else np.nan)
    if np.isnan(v) and not np.isnan(dflt):
        v = dflt
    if lr:
        v = float(np.clip(v, mn, mx))
    return float(v)


def replay_cascade(fl, FA, vals=None, seed=0, budget=300, **kw):
    """all sequences of defuzzified values under every split into successive calls/batches x the 12 settings x failures x clear()"""
    import random
    import numpy as np
    rng = random.Random(seed)

    class Seq(fl.Defuzzifier):
        def __init__(s):
            s.next = None; s.fail = False

        def defuzzify(s, term, minimum, maximum):
            if s.fail:
                raise RuntimeError("defuzzifier failure")
            return s.next

    pool = [float("nan"), 2.0, 5.0, 12.0, -3.0, 10.0, 0.0, float("nan"), float("inf"), float("-inf")]
    cases, seen = 0, set()
    for it in range(budget):
        lp, lr = rng.random() < 0.5, rng.random() < 0.5
        dflt = rng.choice([float("nan"), 4.0, 20.0, 0.0])
        L = rng.randrange(1, 7)
        seq = [rng.choice(pool) for _ in range(L)]
        # a split of the sequence into successive calls
        cuts = sorted(set(rng.sample(range(1, L), rng.randrange(0, L)))) if L > 1 else []
        parts = [seq[a:b] for a, b in zip([0] + cuts, cuts + [L])]
        dz = Seq()
        ov = fl.OutputVariable("o", minimum=0.0, maximum=10.0, lock_range=lr, lock_previous=lp, default_value=dflt, defuzzifier=dz, terms=[fl.Triangle("t", 0, 5, 10)])
        s = float("nan")
        exp_all, got_all = [], []
        # half of the histories run the variable inside an engine: "the previous call" is then the previous Engine.process()
        eng = fl.Engine("e", input_variables=[], output_variables=[ov], rule_blocks=[]) if rng.random() < 0.5 else None
        for part in parts:
            if rng.random() < 0.1:
                ov.clear(); s = float("nan")
            if rng.random() < 0.15:          # a failing defuzzification leaves everything unchanged
                before = (np.array(ov.value, dtype=float).copy(), float(ov.previous_value), list(ov.fuzzy.terms))
                dz.fail = True
                try:
                    ov.defuzzify()
                    return {"failed": True, "expected": "exception propagates", "observed": "no exception", "call": "defuzzify with a failing defuzzifier"}
                except RuntimeError:
                    pass
                dz.fail = False
                after = (np.array(ov.value, dtype=float), float(ov.previous_value), list(ov.fuzzy.terms))
                if not (np.array_equal(before[0], after[0], equal_nan=True) and FA.same(before[1], after[1]) and before[2] == after[2]):
                    return {"failed": True, "expected": "value/previous_value/fuzzy unchanged after a failing defuzzification", "observed": [after[0].tolist(), after[1]], "call": "defuzzify with a failing defuzzifier"}
            held = s
            # a single value arrives as a 1-element array, a 0-d array or a numpy.float64 (what weighted defuzzifiers return for floats)
            dz.next = np.array(part, dtype=float) if len(part) > 1 or rng.random() < 0.4 else rng.choice([np.array(part[0], dtype=float), np.float64(part[0])])
            if eng is not None:
                eng.process()
            else:
                ov.defuzzify()
            exp = []
            for dv in part:
                s = _step(s, dv, lp, dflt, lr, 0.0, 10.0)
                exp.append(s)
            got = np.atleast_1d(np.array(ov.value, dtype=float)).tolist()
            cases += 1
            seen.add((lp, lr, str(dflt), tuple(str(x) for x in seq), tuple(cuts)))
            if len(got) != len(exp) or not all(FA.same(a, b) for a, b in zip(got, exp)) or not FA.same(float(ov.previous_value), held):
                j = lambda xs: [None if x != x else x for x in xs]
                return {"failed": True, "expected": {"value": j(exp), "previous_value": None if held != held else held}, "cases": cases,
                        "observed": {"value": j(got), "previous_value": None if ov.previous_value != ov.previous_value else float(ov.previous_value)},
                        "call": ("Engine.process(): " if eng is not None else "") + f"OutputVariable(range=[0,10], lock_range={lr}, lock_previous={lp}, default={dflt}) defuzzified values {j(seq)} split as {[j(p_) for p_ in parts]}; failing at part {j(part)}"}
        # a disabled variable is left untouched
        ov.enabled = False
        before = np.array(ov.value, dtype=float).copy()
        dz.next = np.array([1.0]); ov.defuzzify()
        if not np.array_equal(before, np.array(ov.value, dtype=float), equal_nan=True):
            return {"failed": True, "expected": "disabled variable untouched", "observed": np.array(ov.value, dtype=float).tolist(), "call": "defuzzify on a disabled variable"}
    return {"failed": False, "cases": cases, "distinct": len(seen)}


# ---------------------------------------------------------------------------------------------------- readiness (C19)
def _ready_engine(fl, rng, kind):
    """a small engine; kind in mamdani / sugeno / tsukamoto / hybrid; antecedent connectives chosen at random"""
    A = fl.InputVariable("A", minimum=0.0, maximum=1.0, terms=[fl.Ramp("low", 1.0, 0.0), fl.Ramp("high", 0.0, 1.0)])
    B = fl.InputVariable("B", minimum=0.0, maximum=1.0, terms=[fl.Triangle("low", -1.0, 0.0, 1.0), fl.Triangle("high", 0.0, 1.0, 2.0)])
    C = fl.InputVariable("C", minimum=0.0, maximum=1.0, terms=[fl.Ramp("low", 1.0, 0.0), fl.Ramp("high", 0.0, 1.0)])
    M = fl.OutputVariable("M", minimum=0.0, maximum=1.0, aggregation=fl.Maximum(), defuzzifier=rng.choice([fl.Centroid(50), fl.MeanOfMaximum(50), fl.Bisector(50)]),
                          terms=[fl.Triangle("m", 0.0, 0.5, 1.0), fl.Triangle("n", 0.25, 0.75, 1.0)])
    S = fl.OutputVariable("S", minimum=0.0, maximum=10.0, aggregation=rng.choice([None, fl.UnboundedSum()]), defuzzifier=rng.choice([fl.WeightedAverage(), fl.WeightedSum()]),
                          terms=[fl.Constant("s", 2.0), fl.Constant("t", 7.0)] if kind not in ("tsukamoto", "inverse") else
                          ([fl.Ramp("s", 0.0, 10.0), fl.Ramp("t", 10.0, 0.0)] if kind == "tsukamoto" else [fl.Triangle("s", 0.0, 2.0, 6.0), fl.Gaussian("t", 7.0, 1.5)]))
    ants = ["A is low", "A is low and B is high", "A is low or B is high", "A is low and B is low or C is high", "(A is low or B is low) and C is high", "A is very low",
            "A is low and (B is high or C is low)", "A is any", "A is low or B is high or C is low", "A is low and B is high and C is low"]
    cons = {"mamdani": ["M is m", "M is n", "M is m and M is n"], "sugeno": ["S is s", "S is t"], "tsukamoto": ["S is s", "S is t"], "inverse": ["S is s", "S is t"],
            "hybrid": ["M is m and S is s", "S is t and M is n", "M is m", "S is s"]}[kind]
    outs = {"mamdani": [M], "sugeno": [S], "tsukamoto": [S], "inverse": [S], "hybrid": [M, S]}[kind]      # inverse: a weighted defuzzifier over non-monotonic shapes (weights x membership)
    # antecedents may read an output variable (the activation of that term accumulated so far, aggregated with the variable's operator or - none being needed
    # by a weighted defuzzifier - by plain summation)
    if M in outs:
        ants = ants + ["M is m", "A is high and M is n", "M is m or B is low"]
    if S in outs:
        ants = ants + ["S is s", "A is high and S is t", "S is s or B is low"]
    act = rng.choice([fl.General(), fl.General(), fl.First(2, 0.0), fl.Last(1, 0.1), fl.Highest(2), fl.Lowest(1), fl.Proportional(), fl.Threshold(">=", 0.2)])
    rules = [fl.Rule.create(f"if {rng.choice(ants)} then {rng.choice(cons)}") for _ in range(rng.randrange(1, 5))]
    rb = fl.RuleBlock(name="rb", conjunction=fl.Minimum(), disjunction=fl.Maximum(), implication=fl.Minimum(), activation=act, rules=rules)
    for ov in outs:       # the readiness check says nothing about these settings: a ready engine must process with any of them
        ov.lock_previous = rng.random() < 0.4
        ov.default_value = rng.choice([float("nan"), float("nan"), 0.5])
        ov.lock_range = rng.random() < 0.3
    e = fl.Engine(name="e", input_variables=[A, B, C], output_variables=outs, rule_blocks=[rb])
    return e


def replay_ready(fl, FA, vals=None, seed=0, budget=200, exclude_known=False, **kw):
    """is_ready() reports no error  ==>  process() completes without raising, for finite inputs in every input form; and every missing
    operator that the loaded rules / output variables need is reported"""
    import random
    import numpy as np
    rng = random.Random(seed)
    cases, seen = 0, set()
    for it in range(budget):
        kind = rng.choice(["mamdani", "sugeno", "tsukamoto", "hybrid", "inverse"])
        e = _ready_engine(fl, rng, kind)
        rb = e.rule_blocks[0]
        removed = [x for x in ("conjunction", "disjunction", "implication", "aggregation", "defuzzifier") if rng.random() < 0.3]
        for x in removed:
            if x in ("conjunction", "disjunction", "implication"):
                setattr(rb, x, None)
            else:
                for ov in e.output_variables:
                    if rng.random() < 0.7:
                        setattr(ov, x, None)
        errors = []
        ready = e.is_ready(errors)
        # what the loaded rules / variables need (independent reading of the property)
        need = set()
        for r in rb.rules:
            toks = r.antecedent.text.split()
            if "and" in toks and rb.conjunction is None: need.add("conjunction")
            if "or" in toks and rb.disjunction is None: need.add("disjunction")
            if r.is_loaded() and rb.implication is None and any(isinstance(c.variable.defuzzifier, fl.IntegralDefuzzifier) for c in r.consequent.conclusions):
                need.add("implication")
        for ov in e.output_variables:
            if ov.defuzzifier is None: need.add("defuzzifier")
            if ov.aggregation is None and isinstance(ov.defuzzifier, fl.IntegralDefuzzifier): need.add("aggregation")
        cases += 1
        seen.add((kind, tuple(removed), type(rb.activation).__name__, tuple(r.text for r in rb.rules)))
        desc = f"{kind} engine, activation {type(rb.activation).__name__}, rules {[r.text for r in rb.rules]}, removed {removed}"
        if need and ready:
            if exclude_known and need == {"disjunction"} and rb.conjunction is not None:
                pass      # region of known finding C19-1 (fixed entries do not use this switch)
            else:
                return {"failed": True, "expected": f"is_ready() reports the missing {sorted(need)}", "observed": "is_ready() == True, no errors", "cases": cases, "call": desc}
        if ready and not need:
            row = [rng.choice([0.0, 0.25, 0.5, 0.75, 1.0, 0.3]) for _ in range(3)]
            forms = [("floats", lambda: [setattr(v, "value", x) for v, x in zip(e.input_variables, row)]),
                     ("1-row matrix", lambda: setattr(e, "input_values", np.array([row]))),
                     ("vector", lambda: setattr(e, "input_values", np.array(row)))]
            for fname, setter in forms:
                e.restart()
                for x in removed:
                    pass
                setter()
                try:
                    e.process()
                except Exception as ex:  # noqa
                    return {"failed": True, "expected": "process() completes: is_ready() reported no error", "observed": f"{type(ex).__name__}: {ex}", "cases": cases,
                            "call": f"{desc}; inputs {row} given as {fname}"}
    return {"failed": False, "cases": cases, "distinct": len(seen)}


def _sem_obj(fl, node, conj, disj, state):
    """value of a loaded expression tree (real Proposition/Operator objects) by the documented grammar; `state` maps an output
    variable to the activations accumulated so far"""
    import numpy as np
    if isinstance(node, fl.Proposition):
        var = node.variable
        if not var.enabled:
            return np.float64(0.0)
        hs = list(node.hedges)
        if hs and isinstance(hs[-1], fl.Any):
            d = np.float64(1.0); hs = hs[:-1]
        elif isinstance(var, fl.OutputVariable):
            d, first = np.float64(0.0), True
            for (t, deg, impl) in state[var.name]:
                if t.name == node.term.name:
                    d = np.float64(deg) if first else np.float64((var.aggregation or fl.UnboundedSum()).compute(d, deg))
                    first = False
        else:
            d = np.float64(node.term.membership(var.value))
        for h in reversed(hs):
            d = np.float64(h.hedge(d))
        return d
    a = _sem_obj(fl, node.left, conj, disj, state); b = _sem_obj(fl, node.right, conj, disj, state)
    return np.float64((conj if node.name == "and" else disj).compute(a, b))


def reference_process(fl, e, held, snap=None):
    """the documented pipeline, wired independently of Engine.process / RuleBlock.activate / Rule.* / Consequent.modify /
    OutputVariable.defuzzify; leaves (membership, compute, hedge, defuzzify of an Aggregated built here) are the library's own"""
    import numpy as np
    state = {ov.name: [] for ov in e.output_variables}
    for block in e.rule_blocks:
        if not block.enabled:
            continue
        import operator as _op
        act = block.activation
        kind = type(act).__name__

        def degree_of(rule):
            return np.float64(rule.weight) * _sem_obj(fl, rule.antecedent.expression, block.conjunction, block.disjunction, state)

        def contribute(rule, d):
            if not rule.enabled:
                return
            for c in rule.consequent.conclusions:
                if c.variable.enabled:
                    dd = d
                    for h in reversed(c.hedges):
                        dd = np.float64(h.hedge(dd))
                    state[c.variable.name].append((c.term, _clean(dd), block.implication))

        order = snap["rules"][id(block)] if snap else list(block.rules)          # the rules in the order the block was built with
        loaded = [r for r in order if r.is_loaded()]
        if kind in ("General", "First", "Last", "Threshold"):
            # one pass: every rule is evaluated on the outputs accumulated SO FAR (a selected rule contributes before the next rule is evaluated)
            count = 0
            for rule in (reversed(loaded) if kind == "Last" else loaded):
                d = degree_of(rule)
                if kind == "General":
                    sel = True
                elif kind in ("First", "Last"):
                    sel = bool(count < act.rules and d > 0.0 and d >= act.threshold)
                else:
                    cmp = {"<": _op.lt, "<=": _op.le, "==": _op.eq, "!=": _op.ne, ">=": _op.ge, ">": _op.gt}[act.comparator.value]
                    sel = bool(cmp(d, act.threshold))
                if sel:
                    count += 1
                    contribute(rule, d)
        elif kind in ("Highest", "Lowest", "Proportional"):
            # two phases by definition: all degrees on the outputs at block entry, then the selected rules fire
            degs = [(degree_of(rule), i, rule) for i, rule in enumerate(loaded)]
            pos = [(d, i, r) for d, i, r in degs if d > 0.0]
            if kind == "Proportional":
                tot = np.float64(0.0)
                for d, i, r in pos:
                    tot = tot + d
                for d, i, r in pos:
                    contribute(r, np.float64(d / tot))
            else:
                pos.sort(key=lambda x: ((-x[0]) if kind == "Highest" else x[0], x[1]))
                for d, i, r in pos[:max(0, act.rules)]:
                    contribute(r, d)
        else:
            raise KeyError(kind)
    out = {}
    for ov in e.output_variables:
        if not ov.enabled:
            out[ov.name] = held[ov.name]
            continue
        agg = fl.Aggregated(ov.name, ov.minimum, ov.maximum, ov.aggregation, [fl.Activated(t, d, i) for (t, d, i) in state[ov.name]])
        dz = ov.defuzzifier
        if snap:            # a FRESH defuzzifier configured as the engine's was when it was built (nothing an earlier step may have left in the object)
            cls_, par_ = snap["defuzzifiers"][ov.name]
            dz = cls_(); dz.configure(par_)
        dv = float(np.float64(dz.defuzzify(agg, ov.minimum, ov.maximum)))
        out[ov.name] = _step(held[ov.name], dv, ov.lock_previous, ov.default_value, ov.lock_range, ov.minimum, ov.maximum)
    return out, state


def _gen_engine(fl, rng):
    nin, nout = rng.choice([1, 2, 3]), rng.choice([1, 2])
    term_makers = [lambda n, a, b: fl.Triangle(n, a, (a + b) / 2, b), lambda n, a, b: fl.Ramp(n, a, b), lambda n, a, b: fl.Gaussian(n, (a + b) / 2, (b - a) / 4),
                   lambda n, a, b: fl.Trapezoid(n, a, a + (b - a) * .25, a + (b - a) * .75, b), lambda n, a, b: fl.Sigmoid(n, (a + b) / 2, 8.0 / (b - a)),
                   lambda n, a, b: fl.Function.create(n, "x") if n == "hi" else fl.Ramp(n, b, a)]      # `hi` as the identity: its membership IS the input value object
    ins = []
    for i in range(nin):
        ins.append(fl.InputVariable(name="ABC"[i], minimum=0.0, maximum=1.0, enabled=rng.random() > 0.1, lock_range=rng.random() < 0.2,
                                    terms=[rng.choice(term_makers)("lo", -0.5, 0.6), rng.choice(term_makers)("hi", 0.4, 1.5)]))
    outs = []
    for i in range(nout):
        if rng.random() < 0.6:
            ov = fl.OutputVariable(name="YZ"[i], minimum=0.0, maximum=1.0, aggregation=rng.choice([fl.Maximum(), fl.AlgebraicSum(), fl.BoundedSum()]),
                                   defuzzifier=rng.choice([fl.Centroid(64), fl.Bisector(64), fl.MeanOfMaximum(64), fl.SmallestOfMaximum(64), fl.LargestOfMaximum(64)]),
                                   terms=[fl.Triangle("lo", 0.0, 0.25, 0.5), fl.Triangle("hi", 0.5, 0.75, 1.0)])
        else:
            ov = fl.OutputVariable(name="YZ"[i], minimum=-10.0, maximum=10.0, aggregation=rng.choice([None, fl.UnboundedSum(), fl.Maximum()]),
                                   defuzzifier=rng.choice([fl.WeightedAverage(), fl.WeightedSum()]),
                                   terms=[fl.Constant("lo", -2.0), fl.Constant("hi", 3.0)] if rng.random() < 0.7 else [fl.Ramp("lo", 5.0, -5.0), fl.Ramp("hi", -5.0, 5.0)])
        ov.enabled = rng.random() > 0.1
        ov.lock_previous = rng.random() < 0.3; ov.default_value = rng.choice([float("nan"), float("nan"), 0.5]); ov.lock_range = rng.random() < 0.3
        outs.append(ov)
    if len(outs) == 2 and all(isinstance(o.defuzzifier, fl.WeightedDefuzzifier) for o in outs) and rng.random() < 0.5:
        outs[1].defuzzifier = outs[0].defuzzifier          # one defuzzifier object serving two output variables (what Engine.configure(defuzzifier=...) installs)
    e = fl.Engine(name="g", input_variables=ins, output_variables=outs, rule_blocks=[])
    names_in = [v.name for v in ins]; names_out = [v.name for v in outs]
    hedges = ["", "", "very ", "not ", "somewhat ", "not very "]

    def prop(allow_out):
        pool = names_in + (names_out if allow_out else [])
        v = rng.choice(pool)
        if rng.random() < 0.08:
            return f"{v} is any"
        return f"{v} is {rng.choice(hedges)}{rng.choice(['lo', 'hi'])}"

    def ant(depth):
        if depth == 0 or rng.random() < 0.4:
            return prop(rng.random() < 0.25)
        l, r = ant(depth - 1), ant(depth - 1)
        op = rng.choice(["and", "or"])
        return f"({l}) {op} ({r})" if rng.random() < 0.5 else f"{l} {op} {r}"

    for b in range(rng.choice([1, 2])):
        rules = []
        for _ in range(rng.randrange(1, 5)):
            cons = " and ".join(f"{rng.choice(names_out)} is {rng.choice(hedges) if rng.random() < 0.3 else ''}{rng.choice(['lo', 'hi'])}" for _ in range(rng.choice([1, 1, 2])))
            w = rng.choice([1.0, 1.0, 0.5, 0.25])
            r = fl.Rule.create(f"if {ant(2)} then {cons}" + (f" with {w}" if w != 1.0 else ""), e)
            r.enabled = rng.random() > 0.15
            rules.append(r)
        conj = rng.choice([fl.Minimum(), fl.AlgebraicProduct(), fl.NormLambda(lambda a, b: 0.75 * a + 0.25 * b * b)])
        disj = rng.choice([fl.Maximum(), fl.AlgebraicSum(), fl.NormLambda(lambda a, b: 0.5 * a + 0.5 * b * b)])
        e.rule_blocks.append(fl.RuleBlock(name=f"b{b}", enabled=rng.random() > 0.15, conjunction=conj, disjunction=disj,
                                          implication=rng.choice([fl.Minimum(), fl.AlgebraicProduct()]), rules=rules,
                                          activation=rng.choice([fl.General, fl.General, lambda: fl.First(rng.choice([1, 2, 5]), rng.choice([0.0, 0.25])),
                                                                 lambda: fl.Last(rng.choice([1, 2, 5]), rng.choice([0.0, 0.25])), lambda: fl.Highest(rng.choice([1, 2, 5])),
                                                                 lambda: fl.Lowest(rng.choice([1, 2, 5])), fl.Proportional,
                                                                 lambda: fl.Threshold(rng.choice(["<", "<=", "==", "!=", ">=", ">"]), rng.choice([0.0, 0.25, 0.5]))])()))
    return e


def replay_pipeline(fl, FA, vals=None, seed=0, budget=150, exclude_known=True, **kw):
    """generated engines x input rows (interior, bounds, breakpoints, out of range, +-inf, NaN): Engine.process against the reference pipeline"""
    import random
    import numpy as np
    rng = random.Random(seed)
    cases, seen = 0, set()
    rows = [0.0, 1.0, 0.5, 0.25, 0.6, 0.4, -0.5, 1.5, float("inf"), float("-inf"), float("nan"), 0.05, 0.95]
    for it in range(budget):
        e = _gen_engine(fl, rng)
        if exclude_known and any(known_c07_1([(c.variable.name, c.hedges, None) for c in r.consequent.conclusions], {c.variable.name: True for c in r.consequent.conclusions})
                                 if False else any(c.hedges for c in r.consequent.conclusions[:-1]) for b in e.rule_blocks for r in b.rules):
            continue       # region of known finding C07-1 (hedged conclusion followed by another one)
        snap = {"rules": {id(b): list(b.rules) for b in e.rule_blocks}, "defuzzifiers": {ov.name: (type(ov.defuzzifier), ov.defuzzifier.parameters()) for ov in e.output_variables}}
        for step in range(3):            # several steps on the same engine: earlier steps must leave no trace except the held value
            as_array = rng.random() < 0.3          # the row given as one-element arrays (accepted by every activation method)
            given = [rng.choice(rows) for _ in e.input_variables]
            for v, x_ in zip(e.input_variables, given):
                v.value = np.array([x_]) if as_array else x_
            held = {ov.name: float(np.take(np.asarray(ov.value, dtype=float), -1)) for ov in e.output_variables}
            try:
                exp, st = reference_process(fl, e, held, snap)
            except Exception as ex:  # noqa   (e.g. TypeError of infer_type for mixed term kinds): not a case of this property
                continue
            e.process()
            now_in = [float(np.take(np.asarray(v.value, dtype=float), -1)) for v in e.input_variables]
            want_in = [float(np.clip(x_, v.minimum, v.maximum)) if (v.lock_range and x_ == x_) else x_ for v, x_ in zip(e.input_variables, given)]
            if not all(FA.same(a_, b_, rel=0, abs_=0) for a_, b_ in zip(now_in, want_in)):
                return {"failed": True, "cases": cases, "expected": {"input values after process()": [None if x_ != x_ else x_ for x_ in want_in]}, "observed": [None if x_ != x_ else x_ for x_ in now_in],
                        "call": f"process() changed the input values (given {'as one-element arrays' if as_array else 'as floats'}); blocks {[(b.name, str(b.activation), [r.text for r in b.rules]) for b in e.rule_blocks]}, step {step}"}
            if any([id(r) for r in b.rules] != [id(r) for r in snap["rules"][id(b)]] for b in e.rule_blocks):
                return {"failed": True, "cases": cases, "expected": "process() leaves the order of the rules of every block as it was", "observed": "the rules of a block were reordered",
                        "call": f"blocks {[(b.name, str(b.activation)) for b in e.rule_blocks]}, step {step}"}
            cases += 1
            seen.add((len(e.input_variables), len(e.output_variables), len(e.rule_blocks), tuple(type(b.activation).__name__ for b in e.rule_blocks), tuple(r.text for b in e.rule_blocks for r in b.rules)))
            for ov in e.output_variables:
                got = float(np.take(np.asarray(ov.value, dtype=float), -1))
                got_terms = [(a.term.name, float(a.degree)) for a in ov.fuzzy.terms]
                exp_terms = [(t.name, float(d)) for (t, d, i) in st[ov.name]]
                ok_terms = len(got_terms) == len(exp_terms) and all(g[0] == x[0] and FA.same(g[1], x[1], rel=1e-12, abs_=1e-12) for g, x in zip(got_terms, exp_terms))
                if not ok_terms or not FA.same(got, exp[ov.name], rel=1e-9, abs_=1e-9):
                    j = lambda x: None if x != x else x
                    return {"failed": True, "cases": cases, "expected": {"value": j(exp[ov.name]), "fuzzy": exp_terms}, "observed": {"value": j(got), "fuzzy": got_terms},
                            "call": f"output {ov.name} (enabled={ov.enabled}, {type(ov.defuzzifier).__name__}) of engine with inputs "
                                    f"{[(v.name, j(float(v.value)), v.enabled) for v in e.input_variables]}, blocks "
                                    f"{[(b.name, b.enabled, str(b.activation), [(r.text, r.enabled) for r in b.rules]) for b in e.rule_blocks]}, step {step}"}
    return {"failed": False, "cases": cases, "distinct": len(seen)}


def _hist_engine(fl, cfg_seed):
    import random
    rng = random.Random(cfg_seed)
    e = _gen_engine(fl, rng)
    for ov in e.output_variables:
        ov.lock_previous = False
        if isinstance(ov.defuzzifier, fl.WeightedDefuzzifier) and rng.random() < 0.7:      # terms holding references to the engine
            n = len(e.input_variables)
            ov.terms[0] = fl.Linear("lo", [0.5] * n + [1.0], e)
            ov.terms[1] = fl.Function.create("hi", f"{e.input_variables[0].name} * 2 + 1", e)
    e._arrays = False
    if rng.random() < 0.15:
        # the configuration in which a value object travels furthest: the identity as an input term (its membership IS the input array), one-element arrays
        # as inputs, and an activation method that normalises degrees afterwards
        iv = e.input_variables[0]
        iv.terms[1] = fl.Function.create("hi", "x")
        e.rule_blocks[0].activation = fl.Proportional()
        e._arrays = True
    for b in e.rule_blocks:
        b.reload_rules(e)
    return e


def _apply_edit(fl, e, ed):
    kind = ed[0]
    if kind == "term":
        _, vi, ti, attr, val = ed
        setattr(e.output_variables[vi].terms[ti], attr, val)
    elif kind == "coef":
        _, vi, ti, ci, val = ed
        e.output_variables[vi].terms[ti].coefficients[ci] = val            # in place: a shared list would leak into the other engine
    elif kind == "weight":
        _, bi, ri, val = ed
        e.rule_blocks[bi].rules[ri].weight = val
    elif kind == "text":
        _, bi, ri, txt = ed
        r = e.rule_blocks[bi].rules[ri]
        r.text = txt
        r.load(e)
    elif kind == "range":
        _, vi, lo, hi = ed
        e.output_variables[vi].range = (lo, hi)


def _outputs(fl, e):
    import numpy as np
    # a disabled output variable is left untouched by processing (C12), so its value is not an output of the step
    out = [(ov.name, float(np.take(np.asarray(ov.value, dtype=float), -1)) if ov.enabled else float("nan"), [(a.term.name, float(a.degree)) for a in ov.fuzzy.terms]) for ov in e.output_variables]
    # the per-rule results of the step (degree, triggered) of every enabled block are part of what a step leaves behind
    for bi, b in enumerate(e.rule_blocks):
        if b.enabled:
            out.append((f"rules of block {bi}", 0.0, [(f"rule {ri} triggered={bool(np.all(r.triggered))}", float(np.take(np.asarray(r.activation_degree, dtype=float), -1))) for ri, r in enumerate(b.rules)]))
    return out


def _same_out(FA, a, b):
    return len(a) == len(b) and all(x[0] == y[0] and FA.same(x[1], y[1], rel=1e-12, abs_=1e-12) and len(x[2]) == len(y[2])
                                    and all(t[0] == u[0] and FA.same(t[1], u[1], rel=1e-12, abs_=1e-12) for t, u in zip(x[2], y[2])) for x, y in zip(a, b))


def replay_history(fl, FA, vals=None, seed=0, budget=60, **kw):
    """interleavings of {set inputs, process, restart, copy and switch, edit a parameter of the copy, toggle a flag and restore it, edit a rule text
    and reload}: every processing result equals that of a freshly built engine with the same edits; originals are never affected by their copies"""
    import random
    import numpy as np
    rng = random.Random(seed)
    cases, seen = 0, set()
    rows = [0.0, 1.0, 0.5, 0.25, 0.6, 0.4, 0.9, 0.1, float("nan")]
    for it in range(budget):
        cfg_seed = rng.randrange(10 ** 9)
        try:
            cur = _hist_engine(fl, cfg_seed)
        except Exception:
            continue
        if any(any(c.hedges for c in r.consequent.conclusions[:-1]) for b in cur.rule_blocks for r in b.rules if r.is_loaded()):
            continue            # region of known finding C07-1
        edits, kept, trace = [], [], []
        xs = [float("nan")] * len(cur.input_variables)

        def fresh():
            f = _hist_engine(fl, cfg_seed)
            for ed in edits:
                _apply_edit(fl, f, ed)
            return f

        def check(tag, flags=None):
            nonlocal cases
            ref = fresh()
            if flags:
                flags(ref)
            for v, x in zip(ref.input_variables, xs):
                v.value = x
            for v, x in zip(cur.input_variables, xs):
                pass
            try:
                ref.process()
            except Exception:
                return None
            try:
                cur.process()
            except Exception as ex:  # noqa
                return {"failed": True, "cases": cases, "expected": "process() completes, as it does on a freshly built engine with the same edits and inputs", "observed": f"{type(ex).__name__}: {ex}",
                        "call": f"engine seed {cfg_seed}: after {trace} with edits {edits} on inputs {[None if x != x else x for x in xs]} ({tag})"}
            cases += 1
            now_in = [float(np.take(np.asarray(v.value, dtype=float), -1)) for v in cur.input_variables]
            ref_in = [float(np.clip(x, v.minimum, v.maximum)) if (v.lock_range and x == x) else x for v, x in zip(cur.input_variables, xs)]      # what was given
            if not all(FA.same(p_, q_, rel=0, abs_=0) for p_, q_ in zip(now_in, ref_in)):
                return {"failed": True, "cases": cases, "expected": [None if x != x else x for x in ref_in], "observed": [None if x != x else x for x in now_in],
                        "call": f"engine seed {cfg_seed}: after {trace} process() changed the input values themselves ({tag})"}
            a, b = _outputs(fl, cur), _outputs(fl, ref)
            if not _same_out(FA, a, b):
                j = lambda o: [(n, None if v != v else v, t) for n, v, t in o]
                return {"failed": True, "cases": cases, "expected": j(b), "observed": j(a),
                        "call": f"engine seed {cfg_seed}: after {trace} the result of process() differs from a freshly built engine with the same edits {edits} on inputs {[None if x != x else x for x in xs]} ({tag})"}
            return None

        for step in range(rng.randrange(3, 9)):
            op = rng.choice(["inputs", "process", "process", "restart", "copy", "edit", "toggle", "retext"])
            trace.append(op)
            if op == "inputs":
                xs = [rng.choice(rows) for _ in cur.input_variables]
                arr = rng.random() < 0.3 or getattr(cur, "_arrays", False)          # given as one-element arrays
                for v, x in zip(cur.input_variables, xs):
                    v.value = np.array([x]) if arr else x
            elif op == "process":
                r = check("process")
                if r:
                    return r
            elif op == "restart":
                if rng.random() < 0.4:
                    # a term object of an output variable is replaced by an equal-named new object: a restarted engine's rules refer to the CURRENT term objects
                    vi = rng.randrange(len(cur.output_variables)); ov_ = cur.output_variables[vi]; ti = rng.randrange(len(ov_.terms)); t_old = ov_.terms[ti]
                    ov_.terms[ti] = copy.deepcopy(t_old) if not isinstance(t_old, (fl.Linear, fl.Function)) else t_old
                    trace.append("replace-term-object")
                cur.restart()
                for b_ in cur.rule_blocks:
                    for r_ in b_.rules:
                        if r_.is_loaded():
                            for c_ in r_.consequent.conclusions:
                                if not any(c_.term is t_ for t_ in c_.variable.terms):
                                    return {"failed": True, "cases": cases, "expected": "after restart() every conclusion refers to a term object of its variable", "observed": f"rule '{r_.text}' refers to a term object that is no longer in {c_.variable.name}.terms",
                                            "call": f"engine seed {cfg_seed}: {trace}"}
                xs = [float("nan")] * len(cur.input_variables)
                r = check("after restart")
                if r:
                    return r
            elif op == "copy":
                for v, x in zip(cur.input_variables, xs):
                    v.value = x
                snap = (cur, str(cur), list(xs), list(edits))
                kept.append(snap)
                cur = cur.copy()
            elif op == "edit":
                vi = rng.randrange(len(cur.output_variables))
                ov = cur.output_variables[vi]
                t0 = ov.terms[0]
                if isinstance(t0, fl.Linear):
                    ed = ("coef", vi, 0, 0, rng.choice([2.0, -1.0, 0.25]))
                elif isinstance(t0, fl.Constant):
                    ed = ("term", vi, 0, "value", rng.choice([-5.0, 4.0, 0.5]))
                else:
                    ed = ("weight", 0, 0, rng.choice([0.5, 0.25, 1.0]))
                edits.append(ed); _apply_edit(fl, cur, ed)
            elif op == "toggle":
                kind = rng.choice(["rule", "block", "out", "in"])
                if kind == "rule":
                    bi = rng.randrange(len(cur.rule_blocks)); ri = rng.randrange(len(cur.rule_blocks[bi].rules))
                    get = lambda e_: e_.rule_blocks[bi].rules[ri]
                elif kind == "block":
                    bi = rng.randrange(len(cur.rule_blocks)); get = lambda e_: e_.rule_blocks[bi]
                elif kind == "out":
                    vi = rng.randrange(len(cur.output_variables)); get = lambda e_: e_.output_variables[vi]
                else:
                    vi = rng.randrange(len(cur.input_variables)); get = lambda e_: e_.input_variables[vi]
                old = get(cur).enabled
                get(cur).enabled = not old
                if kind == "in" and rng.random() < 0.5:
                    # inputs given through the engine-level matrix while one input variable is disabled: every variable still receives its own column
                    xs = [rng.choice(rows) for _ in cur.input_variables]
                    cur.input_values = np.array([xs])
                    trace.append("input_values-matrix-while-toggled")
                if rng.random() < 0.4:
                    cur.restart(); xs = [float("nan")] * len(cur.input_variables); trace.append("restart-while-toggled")
                r = check(f"{kind} flag toggled", flags=lambda e_: setattr(get(e_), "enabled", not old))
                get(cur).enabled = old
                if r:
                    return r
                r = check(f"{kind} flag restored")
                if r:
                    return r
            elif op == "retext":
                bi = rng.randrange(len(cur.rule_blocks)); ri = rng.randrange(len(cur.rule_blocks[bi].rules))
                rule = cur.rule_blocks[bi].rules[ri]
                ins = [v.name for v in cur.input_variables]
                new_ant = rng.choice([f"{ins[0]} is lo", f"{ins[0]} is hi", f"{ins[0]} is not lo or {ins[-1]} is hi", f"{ins[0]} is lo and {ins[-1]} is very hi"])
                txt = f"if {new_ant} then {rule.consequent.text}"
                ed = ("text", bi, ri, txt)
                edits.append(ed); _apply_edit(fl, cur, ed)
        seen.add((cfg_seed, tuple(trace)))
        # originals are untouched by whatever happened to their copies
        for (orig, text0, xs0, edits0) in kept:
            if str(orig) != text0:
                return {"failed": True, "cases": cases, "expected": "original engine unchanged after operating/editing its copy", "observed": "FLL of the original changed",
                        "call": f"engine seed {cfg_seed}: {trace} with edits {edits}"}
            saved, edits = edits, edits0
            ref = fresh(); edits = saved
            for v, x in zip(ref.input_variables, xs0):
                v.value = x
            for v, x in zip(orig.input_variables, xs0):
                v.value = x
            try:
                ref.process()
            except Exception:
                continue
            orig.process()
            if not _same_out(FA, _outputs(fl, orig), _outputs(fl, ref)):
                return {"failed": True, "cases": cases, "expected": _outputs(fl, ref), "observed": _outputs(fl, orig),
                        "call": f"engine seed {cfg_seed}: the ORIGINAL engine computes different outputs after its copy was operated/edited: {trace}, edits on the copy {saved}"}
    return {"failed": False, "cases": cases, "distinct": len(seen)}


# ---------------------------------------------------------------------------------------------------- weighted defuzzifiers (C10)
def _grouped_reference(fl, acts, aggregation):
    """groups keyed by term name in first-occurrence order; degree = left fold of the aggregation operator (plain sum when none) over the degrees"""
    import numpy as np
    agg = aggregation or fl.UnboundedSum()
    order, deg, term = [], {}, {}
    for (t, d) in acts:
        d = np.nan_to_num(np.asarray(d, dtype=float), nan=0.0, neginf=0.0, posinf=1.0)
        if t.name not in deg:
            order.append(t.name); deg[t.name] = d; term[t.name] = t
        else:
            deg[t.name] = np.asarray(agg.compute(deg[t.name], d), dtype=float)
    return [(term[n], deg[n]) for n in order]


def _kind_reference(fl, terms):
    kinds = set()
    for t in terms:
        if isinstance(t, (fl.Constant, fl.Linear, fl.Function)):
            kinds.add("TakagiSugeno")
        elif t.is_monotonic():
            kinds.add("Tsukamoto")
        else:
            kinds.add("Automatic")
    if len(kinds) > 1:
        return "mixed"
    return kinds.pop() if kinds else "Automatic"


def replay_weighted(fl, FA, vals=None, seed=0, budget=300, exclude_known=True, **kw):
    import random
    import numpy as np
    rng = random.Random(seed)
    cases, seen = 0, set()
    eng = fl.Engine("e", input_variables=[fl.InputVariable("A", minimum=0, maximum=1), fl.InputVariable("B", minimum=0, maximum=1)])
    eng.input_variables[0].value = 0.25; eng.input_variables[1].value = 0.75
    pools = {
        "ts": lambda: [fl.Constant("a", 2.0), fl.Constant("b", -3.0), fl.Linear("c", [1.0, 2.0, 0.5], eng), fl.Function.create("d", "A + 2 * B", eng)],
        "tsukamoto": lambda: [fl.Ramp("a", 0.0, 10.0), fl.Ramp("b", 10.0, 0.0), fl.SShape("c", 0.0, 10.0), fl.ZShape("d", 0.0, 10.0)],
        "tsukamoto_inf": lambda: [fl.Ramp("a", 0.0, 10.0), fl.Sigmoid("b", 5.0, 1.0), fl.Concave("c", 2.0, 8.0), fl.Arc("d", 0.0, 10.0)],
        "nonmono": lambda: [fl.Triangle("a", 0.0, 5.0, 10.0), fl.Gaussian("b", 5.0, 2.0), fl.Trapezoid("c", 0.0, 2.0, 6.0, 10.0), fl.Bell("d", 5.0, 2.0, 3.0)],
        "mixed": lambda: [fl.Constant("a", 2.0), fl.Ramp("b", 0.0, 10.0), fl.Triangle("c", 0.0, 5.0, 10.0), fl.Constant("d", 7.0)],
    }
    aggs = [None, fl.UnboundedSum(), fl.Maximum(), fl.AlgebraicSum(), fl.BoundedSum(), fl.EinsteinSum(), fl.NormalizedSum(), fl.DrasticSum(), fl.HamacherSum(), fl.NilpotentMaximum()]
    shared, dzs = fl.Aggregated("o", 0.0, 10.0, None, []), {}
    for it in range(budget):
        pname = rng.choice(list(pools))
        pool = pools[pname]()[:rng.randrange(1, 5)]
        agg = rng.choice(aggs)
        batch = rng.random() < 0.3
        nact = rng.randrange(0, 7)
        batch = batch and nact > 0
        acts = []
        for _ in range(nact):
            t = rng.choice(pool)
            d = np.array([rng.choice([0.0, 0.25, 0.5, 1.0, 0.75]) for _ in range(3)]) if batch else rng.choice([0.0, 0.25, 0.5, 1.0, 0.75, 0.1])
            acts.append((t, d))
        # every other history re-uses ONE fuzzy output object and the same defuzzifier objects, as an engine does (OutputVariable.fuzzy is cleared and
        # refilled by every process()): a result remembered from an earlier content of the same object shows here
        reuse = it % 2 == 1
        if reuse:
            fuzzy = shared
            fuzzy.terms.clear(); fuzzy.aggregation = agg
            fuzzy.terms.extend(fl.Activated(t, d, fl.Minimum()) for t, d in acts)
        else:
            fuzzy = fl.Aggregated("o", 0.0, 10.0, agg, [fl.Activated(t, d, fl.Minimum()) for t, d in acts])
        before = [(a.term.name, np.array(a.degree, dtype=float).copy()) for a in fuzzy.terms]
        for dcls in (fl.WeightedAverage, fl.WeightedSum):
            for typ in ("Automatic", "TakagiSugeno", "Tsukamoto"):
                dz = dzs.setdefault((dcls, typ), dcls(typ)) if reuse else dcls(typ)
                kind = _kind_reference(fl, [t for t, _ in acts])
                eff = typ if typ != "Automatic" else kind
                desc = ("[fuzzy output object and defuzzifier re-used from the previous cases] " if reuse else "") + f"{dcls.__name__}('{typ}') on activations {[(t.name + ':' + type(t).__name__, np.asarray(d).tolist()) for t, d in acts]} aggregation {type(agg).__name__ if agg else None}"
                if eff == "mixed":
                    try:
                        dz.defuzzify(fuzzy)
                        return {"failed": True, "expected": "TypeError (terms of different kinds, type Automatic)", "observed": "a value", "call": desc, "cases": cases}
                    except TypeError:
                        continue
                groups = _grouped_reference(fl, acts, agg)
                zs_ok = True
                ws = np.zeros(3) if batch else np.float64(0.0)
                wt = np.zeros(3) if batch else np.float64(0.0)
                if not acts:
                    ws = ws + np.nan
                try:
                    for (t, w) in groups:
                        z = np.asarray(t.tsukamoto(w) if eff == "Tsukamoto" else t.membership(w), dtype=float)
                        ws = ws + w * z; wt = wt + w
                except RuntimeError:        # explicit Tsukamoto on a term that refuses: not a case of this property
                    continue
                exp = np.asarray(ws / wt if dcls is fl.WeightedAverage else (ws / wt) * wt, dtype=float)
                if exclude_known and pname == "tsukamoto_inf" and eff == "Tsukamoto" and any(np.any(np.asarray(w) == 0) for _, w in groups):
                    continue        # region of known finding C10-1 (tsukamoto(0) of Sigmoid/Concave is infinite: 0 * inf = NaN)
                try:
                    got = np.asarray(dz.defuzzify(fuzzy), dtype=float)
                    got2 = np.asarray(dz.defuzzify(fuzzy), dtype=float)      # repeated call: same value (nothing cached or mutated)
                except Exception as ex:  # noqa
                    return {"failed": True, "expected": np.atleast_1d(exp).tolist(), "observed": f"{type(ex).__name__}: {ex}", "call": desc, "cases": cases}
                cases += 1
                seen.add((pname, typ, dcls.__name__, type(agg).__name__, nact, batch))
                e1, g1, g2 = np.atleast_1d(exp), np.atleast_1d(got), np.atleast_1d(got2)
                ok = e1.shape == g1.shape == g2.shape and all(FA.same(a, b, rel=1e-9, abs_=1e-9) for a, b in zip(e1, g1)) and all(FA.same(a, b) for a, b in zip(g1, g2))
                after = [(a.term.name, np.array(a.degree, dtype=float)) for a in fuzzy.terms]
                same_fuzzy = len(before) == len(after) and all(x[0] == y[0] and np.array_equal(x[1], y[1]) for x, y in zip(before, after))
                if not ok or not same_fuzzy:
                    j = lambda a: [None if x != x else float(x) for x in np.atleast_1d(a)]
                    return {"failed": True, "expected": {"value": j(exp), "fuzzy output unchanged": True}, "observed": {"first": j(got), "second": j(got2), "fuzzy output unchanged": same_fuzzy},
                            "call": desc, "cases": cases}
                if dz.type.name != typ:
                    return {"failed": True, "expected": f"type stays {typ}", "observed": dz.type.name, "call": desc + " (the configured type changed)", "cases": cases}
        # Aggregated.activation_degree(term) = degree of the term's group (0 when absent)
        groups = dict((t.name, w) for t, w in _grouped_reference(fl, acts, agg))
        for t in pool:
            got = np.asarray(fuzzy.activation_degree(t), dtype=float)
            exp = np.asarray(groups.get(t.name, 0.0), dtype=float)
            if got.shape != exp.shape and got.size != exp.size or not all(FA.same(a, b) for a, b in zip(np.atleast_1d(got), np.atleast_1d(exp))):
                return {"failed": True, "expected": np.atleast_1d(exp).tolist(), "observed": np.atleast_1d(got).tolist(), "cases": cases,
                        "call": f"Aggregated.activation_degree({t.name}) on {[(t_.name, np.asarray(d).tolist()) for t_, d in acts]} aggregation {type(agg).__name__ if agg else None}"}
    return {"failed": False, "cases": cases, "distinct": len(seen)}


def replay_zero_degree(fl, FA, cls, vals=None, **kw):
    """an activation with degree 0 never changes the result: needs tsukamoto(0) finite"""
    import numpy as np
    from contracts import terms as CT
    t = CT.TERMS[cls]
    defaults = {"Arc": dict(start=0.0, end=10.0), "Concave": dict(inflection=2.0, end=8.0), "Ramp": dict(start=0.0, end=10.0), "Sigmoid": dict(inflection=5.0, slope=1.0),
                "SShape": dict(start=0.0, end=10.0), "ZShape": dict(start=0.0, end=10.0)}[cls]
    kwv = dict(defaults, height=1.0)
    if vals and all(k in vals and vals[k] == vals[k] for k in t.fields()):
        cand = {k: float(vals[k]) for k in t.fields()}
        if bool(t.valid(FA, {k: np.float64(v) for k, v in cand.items()})):
            kwv = cand
    term = getattr(fl, cls)("z", **kwv)
    z0 = np.float64(term.tsukamoto(0.0))
    other = fl.Ramp("r", 0.0, 10.0)
    base = fl.Aggregated("o", 0.0, 10.0, None, [fl.Activated(other, 0.5)])
    plus = fl.Aggregated("o", 0.0, 10.0, None, [fl.Activated(other, 0.5), fl.Activated(term, 0.0)])
    a = np.float64(fl.WeightedAverage("Tsukamoto").defuzzify(base)); b = np.float64(fl.WeightedAverage("Tsukamoto").defuzzify(plus))
    return {"failed": not (np.isfinite(z0) and FA.same(a, b)), "expected": {"tsukamoto(0)": "finite", "result with the degree-0 activation": float(a)},
            "observed": {"tsukamoto(0)": float(z0), "result": None if b != b else float(b)}, "call": f"{cls}({kwv}): WeightedAverage('Tsukamoto') on [Ramp@0.5] vs [Ramp@0.5, {cls}@0.0]"}
