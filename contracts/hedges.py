"""Sidecar contracts for fuzzylite.hedge (property C05).  Oracles = DESIGN Appendix A.2 (class docstrings + statement)."""

MODULE = "hedge"


def any_(A, x): return A.c(1.0)
def extremely(A, x):
    return A.ite(A.le(x, A.c(0.5)), A.mul(A.c(2.0), A.square(x)), A.sub(A.c(1.0), A.mul(A.c(2.0), A.square(A.sub(A.c(1.0), x)))))
def not_(A, x): return A.sub(A.c(1.0), x)
def seldom(A, x):
    return A.ite(A.le(x, A.c(0.5)), A.sqrt(A.div(x, A.c(2.0))), A.sub(A.c(1.0), A.sqrt(A.div(A.sub(A.c(1.0), x), A.c(2.0)))))
def somewhat(A, x): return A.sqrt(x)
def very(A, x): return A.square(x)


HEDGES = {"Any": any_, "Extremely": extremely, "Not": not_, "Seldom": seldom, "Somewhat": somewhat, "Very": very}
NAMES = {"Any": "any", "Extremely": "extremely", "Not": "not", "Seldom": "seldom", "Somewhat": "somewhat", "Very": "very"}
INVERSES = [("Very", "Somewhat"), ("Extremely", "Seldom")]


def unit(A, *xs):
    return A.and_(*[A.and_(A.ge(x, A.c(0.0)), A.le(x, A.c(1.0))) for x in xs])


def replay(fl, FA, clause, hedge, vals, other=None):
    import numpy as np
    x, x2 = np.float64(vals.get("x", 0.0)), np.float64(vals.get("x2", 0.0))
    if not (0 <= x <= 1 and 0 <= x2 <= 1):
        return {"failed": False, "skipped": "outside [0,1]"}
    h = getattr(fl, hedge)()
    H = lambda v: np.float64(h.hedge(v))
    if clause == "formula":
        exp, obs = HEDGES[hedge](FA, x), H(x)
        return {"failed": not FA.same(exp, obs), "expected": float(exp), "observed": float(obs), "call": f"{hedge}().hedge({x!r})"}
    if clause == "range":
        obs = H(x)
        return {"failed": not bool(0 <= obs <= 1), "expected": "in [0,1]", "observed": float(obs), "call": f"{hedge}().hedge({x!r})"}
    if clause == "fixes":
        e0, e1 = (1.0, 0.0) if hedge == "Not" else (1.0, 1.0) if hedge == "Any" else (0.0, 1.0)
        obs = [float(H(0.0)), float(H(1.0))]
        return {"failed": obs != [e0, e1], "expected": [e0, e1], "observed": obs, "call": f"{hedge}().hedge(0), hedge(1)"}
    if clause == "monotone":
        lo, hi = min(x, x2), max(x, x2)
        ok = H(lo) >= H(hi) - 1e-12 if hedge == "Not" else H(lo) <= H(hi) + 1e-12
        return {"failed": not ok, "expected": "antitone" if hedge == "Not" else "monotone", "observed": [float(H(lo)), float(H(hi))], "call": f"{hedge}: {lo!r}, {hi!r}"}
    if clause == "very_le_x_le_somewhat":
        v, s_ = np.float64(fl.Very().hedge(x)), np.float64(fl.Somewhat().hedge(x))
        return {"failed": not (v <= x + 1e-12 and x <= s_ + 1e-12), "expected": "very(x) <= x <= somewhat(x)", "observed": [float(v), float(x), float(s_)], "call": f"x={x!r}"}
    if clause == "inverse":
        g = getattr(fl, other)()
        obs = [float(np.float64(g.hedge(H(x)))), float(H(np.float64(g.hedge(x))))]
        ok = all(FA.same(o, x, rel=1e-9, abs_=1e-9) for o in obs)
        return {"failed": not ok, "expected": float(x), "observed": obs, "call": f"{other}({hedge}(x)), {hedge}({other}(x)) at x={x!r}"}
    if clause == "involution":
        obs = float(H(H(x)))
        return {"failed": not FA.same(obs, x, rel=1e-9, abs_=1e-12), "expected": float(x), "observed": obs, "call": f"not(not({x!r}))"}
    if clause == "all":
        grid = [0.0, 1.0, 0.5, 0.25, 0.75, 2.0 ** -10, 0.5 + 2.0 ** -10, 0.5 + 2.0 ** -12, 0.5 - 2.0 ** -10, 1e-300, 1e-9, 1.0 - 2.0 ** -53, 0.001, 0.0005]
        for u in grid:
            for cl in ["formula", "range", "monotone"] + (["very_le_x_le_somewhat"] if hedge in ("Very", "Somewhat") else []):
                r = replay(fl, FA, cl, hedge, {"x": u, "x2": 0.5})
                if r.get("failed"):
                    return r
            for f, g in INVERSES:
                if hedge in (f, g):
                    r = replay(fl, FA, "inverse", f, {"x": u}, other=g)
                    if r.get("failed"):
                        return r
        r = replay(fl, FA, "elementwise", hedge, {"x": 0.3, "x2": 0.6})
        if r.get("failed"):
            return r
        return replay(fl, FA, "sampled", hedge, vals)
    if clause == "sampled":
        # exact dyadic grid points k/2**20 and random doubles: the formula to within 2 ulp (each hedge is one or two correctly rounded operations;
        # `1 - x` is exact on the grid), not(not(x)) == x exactly on the grid; arrays of any shape (0-d, 1-D, 2-D) element by element with the
        # same shape; and a second call after the first result was modified in place (the result depends on x only)
        import random
        rng = random.Random(int(vals.get("seed", 0)) if isinstance(vals, dict) else 0)
        n = int(vals.get("n", 400)) if isinstance(vals, dict) else 400
        pts = [rng.randrange(0, 2 ** 20 + 1) / 2.0 ** 20 for _ in range(n)] + [rng.random() for _ in range(n)] + [0.5, np.nextafter(0.5, 0), np.nextafter(0.5, 1), 1.0 / 3.0, 2.0 ** -20, 1e-16, 1 - 2.0 ** -53]
        ulp2 = lambda a, b: abs(a - b) <= 2 * np.spacing(max(abs(a), abs(b), 5e-324))
        for u in pts:
            u = np.float64(u)
            exp, obs = np.float64(HEDGES[hedge](FA, u)), H(u)
            if not ulp2(exp, obs):
                return {"failed": True, "expected": float(exp), "observed": float(obs), "call": f"{hedge}().hedge({float(u)!r}) (documented formula, to 2 ulp)"}
            if hedge == "Not" and float(u) * 2 ** 20 == int(float(u) * 2 ** 20) and H(H(u)) != u:
                return {"failed": True, "expected": float(u), "observed": float(H(H(u))), "call": f"not(not({float(u)!r})) on the exact dyadic grid"}
        base2 = np.array([[0.3, 0.6, 0.9], [0.0, 1.0, 0.75]])
        shapes = [np.array(0.3), np.array([0.3, 0.6, 0.0, 1.0]), np.array([[0.3, 0.6, 0.3], [0.0, 1.0, 0.25]]), np.array([[[0.5]], [[0.75]]]),
                  np.array([0.7]), np.array([[0.7]]),                       # one degree in an array keeps the array's shape
                  np.asfortranarray(base2), base2.T, base2[:, ::2],         # memory layout is not part of the value: column-major, transposed and strided views
                  np.asarray(np.matrix([[0.5, 1.0], [0.25, 0.9]])),        # (a plain ndarray built from a matrix)
                  np.array([]), np.zeros((0, 3))]                            # no degrees at all: no results
        for arr in shapes:
            exp = np.array([H(v) for v in arr.ravel()]).reshape(arr.shape)
            got = np.asarray(h.hedge(arr.copy(order="K") if arr.ndim else arr.copy()), dtype=float)
            if got.shape != arr.shape or not np.allclose(got, exp, rtol=1e-15, atol=0):
                return {"failed": True, "expected": {"shape": list(arr.shape), "values": exp.tolist()}, "observed": {"shape": list(got.shape), "values": got.tolist()},
                        "call": f"{hedge}().hedge(array of shape {arr.shape}) against its elements one by one"}
            first = h.hedge(arr.copy(order="K") if arr.ndim else arr.copy())
            if isinstance(first, np.ndarray) and first.flags.writeable:
                first *= 0.25          # the caller owns the result it was given
            again = np.asarray(getattr(fl, hedge)().hedge(arr.copy(order="K") if arr.ndim else arr.copy()), dtype=float)
            if again.shape != exp.shape or not np.allclose(again, exp, rtol=1e-15, atol=0):
                return {"failed": True, "expected": exp.tolist(), "observed": again.tolist(),
                        "call": f"{hedge}().hedge(array of shape {arr.shape}) called again after the first result was scaled in place by its caller"}
        mat = np.matrix([[0.5, 1.0], [0.25, 0.9]])
        exp = np.array([[H(v) for v in row] for row in np.asarray(mat)])
        got = np.asarray(h.hedge(mat), dtype=float)
        if got.shape != exp.shape or not np.allclose(got, exp, rtol=1e-15, atol=0):
            return {"failed": True, "expected": exp.tolist(), "observed": got.tolist(), "call": f"{hedge}().hedge(np.matrix([[0.5, 1.0], [0.25, 0.9]])): element-wise, like any array of degrees"}
        return {"failed": False, "cases": len(pts) + 12}
    if clause == "elementwise":
        arr = np.array([x, x2, 0.0, 0.5, 1.0, 0.25])
        keep = arr.copy()
        try:
            got = np.asarray(h.hedge(arr), dtype=float)
            if not np.array_equal(arr, keep):
                return {"failed": True, "expected": "argument array unchanged: " + str(keep.tolist()), "observed": arr.tolist(), "call": f"{hedge}().hedge(array) modified the caller's array"}
            exp = np.array([H(v) for v in keep])
            ok = got.shape == exp.shape and all(FA.same(u, v) for u, v in zip(got, exp))
            return {"failed": not ok, "expected": exp.tolist(), "observed": got.tolist(), "call": f"{hedge}().hedge(array)"}
        except Exception as ex:  # noqa
            return {"failed": True, "expected": "element-wise result", "observed": f"{type(ex).__name__}: {ex}", "call": f"{hedge}().hedge(array)"}
    if clause == "registration":
        try:
            fm = fl.settings.factory_manager.hedge
            ok = all(type(fm.construct(NAMES[c])).__name__ == c for c in HEDGES)
            return {"failed": not ok, "expected": "factory maps each hedge name to its class", "observed": {k: type(fm.construct(k)).__name__ for k in NAMES.values()}}
        except Exception as ex:  # noqa
            return {"failed": True, "expected": "constructible", "observed": f"{type(ex).__name__}: {ex}"}
    raise KeyError(clause)
