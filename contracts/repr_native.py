"""Native stand-ins for two clauses of C15 that the generated engines of export_native.py reach only by chance:
  * array-valued fields (Discrete.values) whose rows contain +-inf / NaN are printed element by element through the alias prefix;
  * an engine rebuilt from its Python representation has the engine reference of Linear / Function terms in INPUT and output variables
    restored (the constructor updates the references of the terms of ALL variables), so it computes the same outputs."""
import math


def replay_array_repr(fl, FA, vals=None, seed=0, **kw):
    import numpy as np
    inf, nan = math.inf, math.nan
    rows = [[0.0, 0.25, 1.0, 0.5], [-inf, 0.0, inf, 1.0], [-inf, 1.0, 0.0, 0.5, inf, 0.0], [0.0, nan, 1.0, 0.5], [-inf, nan, inf, 1.0], [1.5, 0.1 + 0.2]]
    cases = 0
    old = fl.settings.alias
    try:
        for alias in ("fl", "", "*", "fuzzy"):
            fl.settings.alias = alias
            ns = {}
            exec(fl.representation.import_statement(), ns)
            for row in rows:
                for obj in (fl.Discrete("d", fl.Discrete.to_xy(row[0::2], row[1::2])), fl.array(row), fl.Discrete("d", fl.Discrete.to_xy(row[0::2], row[1::2]), 0.5)):
                    cases += 1
                    text = repr(obj) if hasattr(obj, 'values') else fl.representation.repr(obj)
                    try:
                        back = eval(text, ns)
                    except Exception as ex:  # noqa
                        return {"failed": True, "class": "py-exec-error:array-element", "expected": "the representation evaluates after the import statement", "observed": f"{type(ex).__name__}: {ex}",
                                "call": f"fl.settings.alias = {alias!r}; ns = {{}}; exec(fl.representation.import_statement(), ns); eval({text!r}, ns)", "cases": cases}
                    a = np.asarray(obj.values if hasattr(obj, "values") else obj, dtype=float)
                    b = np.asarray(back.values if hasattr(back, "values") else back, dtype=float)
                    if a.shape != b.shape or not np.array_equal(a, b, equal_nan=True) or (repr(back) if hasattr(back, 'values') else fl.representation.repr(back)) != text:
                        return {"failed": True, "class": "py-values:array-element", "expected": text, "observed": repr(back), "call": f"alias {alias!r}: eval(repr(x))", "cases": cases}
    finally:
        fl.settings.alias = old
    return {"failed": False, "cases": cases, "distinct": len(rows) * 3}


def replay_rebuild_references(fl, FA, vals=None, seed=0, **kw):
    import numpy as np

    def build():
        a = fl.InputVariable("a", minimum=0.0, maximum=1.0, terms=[fl.Ramp("up", 0.0, 1.0)])
        b = fl.InputVariable("b", minimum=0.0, maximum=1.0, terms=[fl.Triangle("mid", 0.0, 0.5, 1.0)])
        e = fl.Engine("refs", input_variables=[a, b], output_variables=[], rule_blocks=[], load=False)
        a.terms.append(fl.Function("fa", "a * b + x", engine=e))
        a.terms.append(fl.Linear("la", [1.0, 0.5, 0.25], engine=e))
        o = fl.OutputVariable("o", minimum=0.0, maximum=3.0, defuzzifier=fl.WeightedAverage("TakagiSugeno"), terms=[fl.Linear("lo", [1.0, 1.0, 0.0], engine=e), fl.Function("fo", "2 * a", engine=e), fl.Constant("c", 0.5)])
        e.output_variables.append(o)
        rb = fl.RuleBlock("rb", conjunction=fl.Minimum(), disjunction=fl.Maximum(), implication=None, activation=fl.General(),
                          rules=[fl.Rule.create("if a is fa then o is lo"), fl.Rule.create("if a is la or b is mid then o is fo"), fl.Rule.create("if a is up then o is c")])
        e.rule_blocks.append(rb)
        for v in e.variables:
            for t in v.terms:
                t.update_reference(e)
        rb.load_rules(e)
        return e
    grid = [(0.0, 0.0), (0.25, 0.75), (0.5, 0.5), (1.0, 0.25), (0.9, 1.0)]

    def outputs(e):
        out = []
        for x, y in grid:
            e.input_variables[0].value = x; e.input_variables[1].value = y
            e.process()
            out.append(float(np.asarray(e.output_variables[0].value, dtype=float).ravel()[-1]))
        return out
    cases = 0
    old = fl.settings.alias
    try:
        for alias in ("fl", "", "*"):
            for mode in ("repr", "encapsulated"):
                fl.settings.alias = alias
                e = build()
                want = outputs(e)
                ns = {}
                exec(fl.representation.import_statement(), ns)
                cases += 1
                try:
                    if mode == "repr":
                        e2 = eval(repr(e), ns)
                    else:
                        code = fl.PythonExporter(formatted=False, encapsulated=True).to_string(e)
                        exec(code, ns)
                        cls = [v for k, v in ns.items() if isinstance(v, type) and k == fl.Op.pascal_case(e.name)][0]
                        e2 = cls().engine
                    got = outputs(e2)
                except Exception as ex:  # noqa
                    return {"failed": True, "class": "py-values:engine-references", "expected": f"outputs {want}", "observed": f"{type(ex).__name__}: {ex}",
                            "call": f"alias {alias!r}, {mode}: rebuild an engine with Function/Linear terms in an input variable from its Python representation and process it", "cases": cases}
                same = all((math.isnan(p) and math.isnan(q)) or p == q for p, q in zip(want, got))
                if not same or repr(e2) != repr(e):
                    return {"failed": True, "class": "py-values:engine-references", "expected": f"outputs {want}", "observed": f"outputs {got}", "call": f"alias {alias!r}, {mode}", "cases": cases}
    finally:
        fl.settings.alias = old
    return {"failed": False, "cases": cases, "distinct": cases}


def replay_large_collections(fl, FA, vals=None, seed=0, **kw):
    """collections longer than reprlib's default limits are printed in full (no literal `...`)"""
    e = fl.Engine("big", input_variables=[fl.InputVariable("a", minimum=0.0, maximum=1.0, terms=[fl.Triangle(f"t{i}", 0.0, 0.5, 1.0) for i in range(25)])], output_variables=[], rule_blocks=[], load=False)
    objs = {"Function with 12 variables": fl.Function("f", "x + k0", variables={f"k{i}": float(i) / 8 for i in range(12)}),
            "Discrete with 40 pairs": fl.Discrete("d", fl.Discrete.to_xy([i / 40 for i in range(40)], [(i % 5) / 4 for i in range(40)])),
            "Linear with 30 coefficients": fl.Linear("l", [float(i) for i in range(30)]),
            "InputVariable with 25 terms": e.input_variables[0],
            "RuleBlock with 30 rules": fl.RuleBlock("rb", rules=[fl.Rule.create(f"if a is t{i % 25} then o is u with 0.{i % 9 + 1}") for i in range(30)])}
    cases = 0
    old = fl.settings.alias
    try:
        for alias in ("fl", "*"):
            fl.settings.alias = alias
            ns = {}
            exec(fl.representation.import_statement(), ns)
            for what, obj in objs.items():
                cases += 1
                text = repr(obj)
                try:
                    back = eval(text, ns)
                    same = repr(back) == text
                except Exception as ex:  # noqa
                    return {"failed": True, "class": "py-exec-error:large-collection", "expected": "the representation is valid Python", "observed": f"{type(ex).__name__}: {ex}; `...` in text: {'...' in text}",
                            "call": f"alias {alias!r}: eval(repr(<{what}>))", "cases": cases}
                if not same:
                    return {"failed": True, "class": "py-repr:large-collection", "expected": text[:200], "observed": repr(back)[:200], "call": f"alias {alias!r}: {what}", "cases": cases}
    finally:
        fl.settings.alias = old
    return {"failed": False, "cases": cases, "distinct": len(objs)}


def replay_exporter_reuse(fl, FA, vals=None, seed=0, **kw):
    """an exporter object created under one alias and used under another prints code consistent with the CURRENT alias"""
    e = fl.Engine("reuse", input_variables=[fl.InputVariable("a", minimum=0.0, maximum=1.0, terms=[fl.Triangle("t", 0.0, 0.5, 1.0)])],
                  output_variables=[fl.OutputVariable("o", minimum=0.0, maximum=1.0, defuzzifier=fl.Centroid(10), aggregation=fl.Maximum(), terms=[fl.Triangle("u", 0.0, 0.5, 1.0)])],
                  rule_blocks=[fl.RuleBlock("rb", implication=fl.Minimum(), activation=fl.General(), rules=[fl.Rule.create("if a is t then o is u")])])
    cases = 0
    old = fl.settings.alias
    try:
        for first in ("fl", "", "*", "fuzzy"):
            fl.settings.alias = first
            exporters = {"plain": fl.PythonExporter(formatted=False, encapsulated=False), "encapsulated": fl.PythonExporter(formatted=False, encapsulated=True)}
            for alias in ("fl", "", "*", "fuzzy"):
                fl.settings.alias = alias
                for mode, exp in exporters.items():
                    cases += 1
                    code = exp.to_string(e)
                    ns = {}
                    try:
                        if mode == "plain":
                            exec(fl.representation.import_statement(), ns)
                            back = eval(code, ns)
                        else:
                            exec(code, ns)
                            back = [v for k, v in ns.items() if isinstance(v, type) and k == fl.Op.pascal_case(e.name)][0]().engine
                        ok = repr(back) == repr(e)
                    except Exception as ex:  # noqa
                        return {"failed": True, "class": "py-exec-error:exporter-reuse", "expected": "the export executes under the alias that is set when it is produced", "observed": f"{type(ex).__name__}: {ex}; first line: {code.splitlines()[0]!r}",
                                "call": f"exporter created under alias {first!r}, used under alias {alias!r} ({mode})", "cases": cases}
                    if not ok:
                        return {"failed": True, "class": "py-repr:exporter-reuse", "expected": repr(e)[:150], "observed": repr(back)[:150], "call": f"{first!r} -> {alias!r} ({mode})", "cases": cases}
    finally:
        fl.settings.alias = old
    return {"failed": False, "cases": cases, "distinct": cases}


def replay_exporter_components(fl, FA, vals=None, seed=0, **kw):
    """PythonExporter's component methods on components exported ON THEIR OWN - empty ones included (a variable without terms, a rule block without rules are
    objects, not None): the code evaluates to an object with the same representation"""
    iv0, iv1 = fl.InputVariable("a", minimum=0.0, maximum=1.0), fl.InputVariable("b", minimum=0.0, maximum=1.0, terms=[fl.Triangle("t", 0.0, 0.5, 1.0)])
    ov0 = fl.OutputVariable("o", minimum=0.0, maximum=1.0)
    ov1 = fl.OutputVariable("p", minimum=0.0, maximum=1.0, defuzzifier=fl.Centroid(10), aggregation=fl.Maximum(), terms=[fl.Triangle("u", 0.0, 0.5, 1.0)])
    rb0, rb1 = fl.RuleBlock("empty"), fl.RuleBlock("rb", implication=fl.Minimum(), activation=fl.General(), rules=[fl.Rule.create("if b is t then p is u")])
    e0 = fl.Engine("nothing")
    e1 = fl.Engine("full", input_variables=[iv1], output_variables=[ov1], rule_blocks=[rb1])
    items = [("input_variable", iv0), ("input_variable", iv1), ("output_variable", ov0), ("output_variable", ov1), ("rule_block", rb0), ("rule_block", rb1), ("engine", e0), ("engine", e1),
             ("term", fl.Triangle("t", 0.0, 0.5, 1.0)), ("term", fl.Constant("c", 0.0)), ("rule", rb1.rules[0]), ("norm", fl.Minimum()), ("norm", None), ("activation", fl.General()), ("activation", None),
             ("defuzzifier", fl.Centroid(10)), ("defuzzifier", None)]
    cases, old = 0, fl.settings.alias
    try:
        for alias in ("fl", "", "*"):
            fl.settings.alias = alias
            for formatted in (False, True):
                exp = fl.PythonExporter(formatted=formatted, encapsulated=False)
                for meth, obj in items:
                    cases += 1
                    try:
                        code = getattr(exp, meth)(obj)
                        ns = {}
                        exec(fl.representation.import_statement(), ns)
                        back = eval(code, ns)
                    except Exception as ex:  # noqa
                        return {"failed": True, "class": "py-exec-error:component", "expected": "code that evaluates", "observed": f"{type(ex).__name__}: {ex}", "cases": cases,
                                "call": f"PythonExporter(formatted={formatted}).{meth}({obj!r}) under alias {alias!r}"}
                    if repr(back) != repr(obj):
                        return {"failed": True, "class": "py-repr:component", "expected": repr(obj)[:200], "observed": repr(back)[:200], "cases": cases,
                                "call": f"PythonExporter(formatted={formatted}).{meth}(...) under alias {alias!r}: the exported code {code[:80]!r} evaluates to something else"}
    finally:
        fl.settings.alias = old
    return {"failed": False, "cases": cases, "distinct": cases}
