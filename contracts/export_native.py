"""Native bounded stand-ins for C14 (FuzzyLite Language export/import round trip) and C15 (Python export rebuilds an identical engine).

Runs the REAL package (`fl`) under /venv/bin/python.  The oracles are written from the property statements:

* C14: t1 = export(e); e2 = import(t1); export(e2) == t1; e2 has the same structure as e (own structural walk below, numeric fields
  compared exactly when representable at the configured decimals, else through their `decimals`-digit rendering); under the hypothesis
  "every numeric parameter representable, heights / weights 1 or further than atol+rtol from 1" the outputs of e2 == outputs of e on a
  grid of input rows (same row sequence on both, one row at a time, NaN == NaN, a raised exception must be raised by both);
  export(import(.)) is idempotent on every text the importer accepts.
* C15: ns = {}; exec(import_statement, ns); eval/exec of the exported code in ns gives e2 with repr(e2) == repr(e) (same alias),
  FLL(e2) == FLL(e) and bit-identical outputs (hypothesis: weights on the decimals grid, heights / weights not within tolerance of 1).

Nothing here computes an expected value with the function under judgement: expected values are the ORIGINAL engine's own text /
outputs.  Lower-level parts used only to build inputs: constructors, `Engine.process`, `Term.is_monotonic`, factories' class lists.
"""
import copy
import glob
import inspect
import math
import os
import random

ALIASES = ("fl", "", "*", "fuzzy")
DOUBLES = (0.1 + 0.2, 1.0 / 3.0, 1e-7, 123456.789012345, 2.0 / 3.0, -0.7000000000000001, math.pi, 1e22, -2.5e-9, 0.30000000000000004 * 3, -0.0)
NAMES_IN = ("a", "in_1", "Temp", "_u", "b2", "Ambient", "speed_kmh", "class")
NAMES_OUT = ("o", "out_1", "Power", "_w", "y2")
TERM_NAMES = ("low", "mid", "high", "t_1", "VeryHigh", "_z", "k9", "cold", "hot", "pass", "lambda")      # (identifiers of the language; two of them are Python keywords)
DESCR = ("", "simple description", "with: colon, comma and  double  space", "100% of (x) [y] {z} <k> = 1/2; ok!", "Engine: not a block", "")
DESCR_Q = (" ", "it's \"quoted\"", "back\\slash and \\n literal", "ends with backslash \\", "'", '"""triple""" \'\'\'', "tab\there")


EMPTY_FUNCTION = False  # set through the entry points' keyword `empty_function`: lone Function terms without a formula
INT_PARAMS = False  # keyword `int_params`: integral-valued parameters are passed as Python ints half of the time


class _Fail(Exception):
    def __init__(self, result):
        self.result = result


class _Run:
    """bookkeeping: failure classes to skip / select, counters"""

    def __init__(self, skip_classes=(), only_class=None):
        self.skip = tuple(skip_classes or ())
        self.only = only_class
        self.skipped = {}
        self.cases = 0
        self.distinct = set()

    def _matches(self, cls, pat):
        return cls == pat or cls.startswith(pat + ":") or (pat.endswith(":") and cls.startswith(pat))

    def wanted(self, cls):
        if self.only is not None and not self._matches(cls, self.only):
            return False
        return not any(self._matches(cls, s) for s in self.skip)

    def fail(self, cls, expected, observed, call):
        if not self.wanted(cls):
            self.skipped[cls] = self.skipped.get(cls, 0) + 1
            return
        raise _Fail({"failed": True, "class": cls, "expected": str(expected)[:600], "observed": str(observed)[:600], "call": str(call)[:1200], "cases": self.cases})

    def done(self):
        r = {"failed": False, "cases": self.cases, "distinct": len(self.distinct)}
        if self.skipped:
            r["skipped"] = dict(sorted(self.skipped.items()))
        return r


# ------------------------------------------------------------------------------------------------------------- generator
class _Cover:
    """covering decks: every item of a category is dealt once before any is dealt twice"""

    def __init__(self, rng):
        self.rng = rng
        self.decks = {}

    def draw(self, key, items, ok=None):
        deck = self.decks.setdefault(key, [])
        for _ in range(2):
            for i, it in enumerate(deck):
                if ok is None or ok(it):
                    return deck.pop(i)
            extra = list(items)
            self.rng.shuffle(extra)
            deck.extend(extra)
        return None


def _catalog(fl):
    fm = fl.settings.factory_manager
    terms = dict(fm.term.constructors)
    mono = {n for n, c in terms.items() if c().is_monotonic()}
    ts = {n for n in terms if n in ("Constant", "Linear", "Function")}
    integral = [n for n, c in fm.defuzzifier.constructors.items() if issubclass(c, fl.IntegralDefuzzifier)]
    weighted = [n for n, c in fm.defuzzifier.constructors.items() if issubclass(c, fl.WeightedDefuzzifier)]
    defuzz = [(n, r) for n in integral for r in (None, 100, 57)] + [(n, t) for n in weighted for t in ("Automatic", "TakagiSugeno", "Tsukamoto")]
    acts = []
    for n in fm.activation.constructors:
        if n in ("First", "Last"):
            acts += [(n, ()), (n, (2, "num")), (n, (10, 0.0))]            # (a rule count of two digits)
        elif n in ("Highest", "Lowest"):
            acts += [(n, ()), (n, (2,)), (n, (12,))]
        elif n == "Threshold":
            acts += [(n, ())] + [(n, (c.value, "num")) for c in fl.Threshold.Comparator]
        else:
            acts += [(n, ())]
    return {"terms": terms, "mono": mono, "ts": ts, "other": set(terms) - mono - ts, "defuzz": defuzz, "acts": acts,
            "tnorm": list(fm.tnorm.constructors) + [None], "snorm": list(fm.snorm.constructors) + [None], "hedge": list(fm.hedge.constructors),
            "integral": set(integral)}


class _Num:
    """numeric parameter source: `decimals` profile = grid of d decimals, `doubles` = arbitrary finite doubles"""

    def __init__(self, rng, profile, d):
        self.rng, self.grid, self.d = rng, profile == "decimals", d

    def num(self, lo, hi):
        x = self.rng.uniform(lo, hi)
        x = round(x, self.d) + 0.0 if self.grid else x
        return int(x) if INT_PARAMS and x == int(x) and self.rng.random() < 0.5 else x

    def positive(self, lo, hi):
        return max(self.num(lo, hi), 10.0 ** -self.d if self.grid else 1e-7)

    def special(self):
        return self.num(-5.0, 5.0) if self.grid else self.rng.choice(DOUBLES)

    def positions(self, k, lo, hi, ordered=True):
        if self.grid:
            n = int(round((hi - lo) * 10 ** self.d))
            idx = self.rng.sample(range(n + 1), k) if n + 1 >= k else [self.rng.randrange(n + 1) for _ in range(k)]
            xs = [round(lo + i / 10 ** self.d, self.d) + 0.0 for i in idx]
            xs = [int(x) if INT_PARAMS and x == int(x) and self.rng.random() < 0.5 else x for x in xs]
        else:
            xs = [lo + (hi - lo) * self.rng.random() for _ in range(k)]
        return sorted(xs) if ordered else xs

    def off_unit(self, grid_d=None):
        """a height / weight that is exactly 1 or at least 0.01 away from 1 (always on the decimals grid when grid_d is given)"""
        d = self.d if self.grid else grid_d
        x = self.rng.choice((self.rng.uniform(0.05, 0.98), self.rng.uniform(1.02, 2.5)))
        if d is None:
            return self.rng.choice((x, 1.0 / 3.0, 0.1 + 0.2, 0.7000000000000001))
        return round(x, d) + 0.0


def _make_term(fl, cat, N, cls_name, name, lo, hi, in_names, fn_vars=False, lone=False):
    """one term of the class with well-formed, pairwise distinct parameters inside [lo, hi]"""
    rng, cls = N.rng, cat["terms"][cls_name]
    span = hi - lo
    P = lambda k, ordered=True: N.positions(k, lo, hi, ordered)  # noqa: E731
    w = lambda: N.positive(span / 10.0, span / 2.0)  # noqa: E731
    if rng.random() < 0.04 and (cls_name != "Function" or (EMPTY_FUNCTION and lone)):
        return cls(name)  # default constructed: all-NaN parameters (a Function without formula only on request: Engine() cannot hold one)
    if cls_name == "Constant":
        args = [rng.choice((N.special(), N.num(lo, hi), math.inf, -math.inf))]
    elif cls_name == "Linear":
        args = [[N.special() for _ in range(len(in_names) + rng.randrange(2))]]
    elif cls_name == "Function":
        v, u, c = rng.choice(in_names), rng.choice(in_names), N.special()
        c = repr(abs(c)) if math.isfinite(c) else "1.5"
        args = [rng.choice((f"{c} * {v} + 0.25", f"sin({v}) / 2.0 - {u}", f"({v} - {c}) ^ 2", f"pi * {v} + x", f"{v} + k" if fn_vars else f"~{v} + {c}"))]
        if args[0].endswith("+ k"):
            return cls(name, args[0], variables={"k": N.special()})
    elif cls_name == "Discrete":
        n = rng.randint(2, 5)
        xs, ys = P(n), [N.num(0.0, 1.0) for _ in range(n)]
        args = [[v for xy in zip(xs, ys) for v in xy]]
    elif cls_name == "Binary":
        args = [P(1)[0], rng.choice((math.inf, -math.inf))]
    elif cls_name == "Bell":
        args = [P(1)[0], w(), N.positive(1.0, 5.0)]
    elif cls_name in ("Cosine", "Spike", "Gaussian"):
        args = [P(1)[0], w()]
    elif cls_name == "GaussianProduct":
        a, b = P(2)
        args = [a, w(), b, w()]
    elif cls_name == "Sigmoid":
        args = [P(1)[0], rng.choice((1, -1)) * N.positive(1.0, 20.0)]
    elif cls_name in ("SigmoidDifference", "SigmoidProduct"):
        a, b = P(2)
        s = -1.0 if cls_name == "SigmoidProduct" else 1.0
        args = [a, N.positive(1.0, 20.0), s * N.positive(1.0, 20.0), b]
    else:  # positional shape parameters: as many sorted (or free order for edge terms) positions as the constructor takes
        k = len([p for p in inspect.signature(cls.__init__).parameters if p not in ("self", "name", "height")])
        args = P(k, ordered=cls_name not in ("Ramp", "Concave", "Arc", "SShape", "ZShape") or rng.random() < 0.5)
    if "height" in inspect.signature(cls.__init__).parameters and rng.random() < 0.3:
        return cls(name, *args, height=N.off_unit())
    return cls(name, *args)


def _range(N, infinite_ok):
    rng = N.rng
    lo = rng.choice((0.0, -1.0, -10.0, 0.5, 20.0))
    hi = lo + rng.choice((1.0, 2.0, 10.0, 100.0))
    if not N.grid and rng.random() < 0.5:
        lo, hi = lo + rng.random() / 7.0, hi + rng.random() / 3.0
    r = rng.random()
    if infinite_ok and r < 0.2:
        return ((-math.inf, math.inf), (-math.inf, hi), (lo, math.inf))[rng.randrange(3)] + (lo, hi)
    return lo, hi, lo, hi


def gen_engine(fl, rng, profile="decimals", cover=None, decimals=3, quotes=None, disabled_rules=False, fn_vars=None):
    """one engine of the covering family (see the task statement); `cover` carries the decks between calls"""
    cover = cover or _Cover(rng)
    cat = _catalog(fl)
    N = _Num(rng, profile, decimals)
    quotes = (profile == "doubles") if quotes is None else quotes
    fn_vars = (profile == "doubles") if fn_vars is None else fn_vars  # Function(variables=...) has no FuzzyLite Language syntax
    descr = lambda: rng.choice(DESCR + (DESCR_Q if quotes else ()))  # noqa: E731
    in_names = rng.sample(NAMES_IN, cover.draw("n_in", (1, 2, 3)))
    out_names = rng.sample(NAMES_OUT, cover.draw("n_out", (1, 1, 2)))
    inputs, outputs, blocks = [], [], []
    for nm in in_names:
        mn, mx, lo, hi = _range(N, True)
        tn = rng.sample(TERM_NAMES, rng.randint(1, 3))
        terms = [_make_term(fl, cat, N, cover.draw("in_term", cat["terms"], lambda c: c not in cat["ts"] or rng.random() < 0.3), t, lo, hi, in_names, fn_vars) for t in tn]
        inputs.append(fl.InputVariable(name=nm, description=descr(), enabled=rng.random() > 0.12, minimum=mn, maximum=mx, lock_range=rng.random() < 0.5, terms=terms))
    for nm in out_names:
        dname, dpar = cover.draw("defuzz", cat["defuzz"])
        integral = dname in cat["integral"]
        dcls = fl.settings.factory_manager.defuzzifier.constructors[dname]
        dz = dcls() if dpar is None else dcls(dpar)
        fam = cat["other"] | cat["mono"] if integral else {"Automatic": rng.choice((cat["ts"], cat["mono"], cat["other"])), "TakagiSugeno": cat["ts"], "Tsukamoto": cat["mono"]}[dpar]
        mn, mx, lo, hi = _range(N, (not integral) or rng.random() < 0.2)
        tn = rng.sample(TERM_NAMES, rng.randint(1, 3))
        terms = [_make_term(fl, cat, N, cover.draw("out_term", cat["terms"], lambda c: c in fam), t, lo, hi, in_names, fn_vars) for t in tn]
        agg = cover.draw("agg", cat["snorm"], (lambda s: s is not None) if integral and rng.random() < 0.9 else None)
        outputs.append(fl.OutputVariable(name=nm, description=descr(), enabled=rng.random() > 0.12, minimum=mn, maximum=mx, lock_range=rng.random() < 0.5,
                                         lock_previous=rng.random() < 0.5, default_value=math.nan if rng.random() < 0.5 else N.num(lo, hi),
                                         aggregation=fl.settings.factory_manager.snorm.constructors[agg]() if agg else None, defuzzifier=dz, terms=terms))
    need_impl = any(isinstance(o.defuzzifier, fl.IntegralDefuzzifier) for o in outputs)
    fm = fl.settings.factory_manager
    for b in range(cover.draw("n_rb", (1, 1, 2))):
        conj, disj = cover.draw("conj", cat["tnorm"]), cover.draw("disj", cat["snorm"])
        impl = cover.draw("impl", cat["tnorm"], (lambda t: t is not None) if need_impl and rng.random() < 0.9 else None)
        aname, apar = cover.draw("act", cat["acts"])
        act = fm.activation.constructors[aname](*[N.num(0.0, 1.0) if p == "num" else p for p in apar])
        rules = []
        for _ in range(rng.randint(1, 4)):
            props = []
            for _ in range(rng.randint(1, 3)):
                v = rng.choice(inputs)
                hs = [cover.draw("hedge", cat["hedge"]) for _ in range(rng.choice((0, 0, 1, 1, 2)))]
                if "any" in hs:
                    hs = hs[:hs.index("any") + 1]
                props.append(" ".join([v.name, "is"] + hs + ([] if hs and hs[-1] == "any" else [rng.choice(v.terms).name])))
            ops = [o for o, n in (("and", conj), ("or", disj)) if n is not None] or ["and", "or"]
            if (conj is None or disj is None) and rng.random() < 0.9 and len(ops) == 2:
                props = props[:1]  # an operator without its norm makes the engine not ready: keep that rare
            ant = props[0]
            for i, p in enumerate(props[1:]):
                ant = f"{ant} {rng.choice(ops)} {p}"
                if i == 0 and rng.random() < 0.5:
                    ant = f"( {ant} )" if rng.random() < 0.5 else f"({ant})"
            cons = []
            for o in rng.sample(outputs, rng.randint(1, len(outputs))):
                h = [cover.draw("hedge_c", [x for x in cat["hedge"] if x != "any"])] if rng.random() < 0.3 else []
                cons.append(" ".join([o.name, "is"] + h + [rng.choice(o.terms).name]))
            text = f"if {ant} then {' and '.join(cons)}"
            w_attr = None
            if rng.random() < 0.35:
                w = N.off_unit(decimals)
                if w < 0.15:
                    w = 0.0             # a rule that is switched off by its weight
                if len(rules) % 2:      # every other weighted rule gets its weight as an attribute (Rule(weight=...) / rule.weight = ...: a free multiplier), not from text
                    w_attr = float(f"{w:.{decimals}f}")
                else:
                    text += f" with {w:.{decimals}f}"
            rule = fl.Rule.create(text)
            if w_attr is not None:
                rule.weight = w_attr
            if disabled_rules and rng.random() < 0.2:
                rule.enabled = False
            rules.append(rule)
        blocks.append(fl.RuleBlock(name=rng.choice(("", "rules", "rb_2", "Block")), description=descr(), enabled=rng.random() > 0.12,
                                   conjunction=fm.tnorm.constructors[conj]() if conj else None, disjunction=fm.snorm.constructors[disj]() if disj else None,
                                   implication=fm.tnorm.constructors[impl]() if impl else None, activation=None if rng.random() < 0.04 else act, rules=rules))
    name = rng.choice(("My_Engine", "e1", "Ctl2", "Tipper2", "A_b_C")) if rng.random() < 0.85 else rng.choice(("engine", "_9z"))
    return fl.Engine(name=name, description=descr(), input_variables=inputs, output_variables=outputs, rule_blocks=blocks)


# ------------------------------------------------------------------------------------------- oracles: numbers, structure, values
def _is_num(x):
    import numpy as np
    return isinstance(x, (int, float, np.number)) and not isinstance(x, (bool, np.bool_))


def _representable(x, d):
    x = float(x)
    return not math.isfinite(x) or float(f"{x:.{d}f}") == x


def _num_eq(a, b, d):
    a, b = float(a), float(b)
    if a != a or b != b:
        return a != a and b != b
    if a == b:
        return True
    return d is not None and not _representable(a, d) and f"{a:.{d}f}" == f"{b:.{d}f}"


def _val_diff(a, b, d, path, depth=0):
    """first difference between two public field values: None or (path, a, b)"""
    import enum
    import numpy as np
    if a is None or b is None or isinstance(a, (bool, str, enum.Enum)) or isinstance(b, (bool, str, enum.Enum)):
        return None if (type(a) is type(b) and a == b) else (path, a, b)
    if _is_num(a) and _is_num(b):
        return None if _num_eq(a, b, d) else (path, a, b)
    if isinstance(a, (list, tuple, np.ndarray)) and isinstance(b, (list, tuple, np.ndarray)):
        if isinstance(a, np.ndarray) or isinstance(b, np.ndarray):
            a, b = np.asarray(a), np.asarray(b)
            if a.shape != b.shape:
                return (path + ".shape", a.shape, b.shape)
            a, b = a.ravel().tolist(), b.ravel().tolist()
        if len(a) != len(b):
            return (path + ".len", len(a), len(b))
        for i, (x, y) in enumerate(zip(a, b)):
            r = _val_diff(x, y, d, f"{path}[{i}]", depth + 1)
            if r:
                return r
        return None
    if isinstance(a, dict) and isinstance(b, dict):
        if sorted(a) != sorted(b):
            return (path + ".keys", sorted(a), sorted(b))
        for k in a:
            r = _val_diff(a[k], b[k], d, f"{path}[{k!r}]", depth + 1)
            if r:
                return r
        return None
    if type(a).__name__ != type(b).__name__:
        return (path + ".class", type(a).__name__, type(b).__name__)
    if depth > 6 or not hasattr(a, "__dict__"):
        return None
    return _obj_diff(a, b, d, path, depth + 1)


_SKIP_FIELDS = {"engine", "root", "fuzzy", "previous_value", "activation_degree", "triggered", "expression", "conclusions", "method"}


def _obj_diff(a, b, d, path, depth=0):
    if type(a).__name__ != type(b).__name__:
        return (path + ".class", type(a).__name__, type(b).__name__)
    fa = {k: v for k, v in vars(a).items() if not k.startswith("_") and k not in _SKIP_FIELDS}
    fb = {k: v for k, v in vars(b).items() if not k.startswith("_") and k not in _SKIP_FIELDS}
    if sorted(fa) != sorted(fb):
        return (path + ".fields", sorted(fa), sorted(fb))
    for k in fa:
        r = _val_diff(fa[k], fb[k], d, f"{path}.{k}", depth)
        if r:
            return r
    return None


def struct_diff(fl, e1, e2, d):
    """own structural comparison of two engines; None or (what, v1, v2).  Output variables' range / aggregation live in `fuzzy`."""
    r = _obj_diff(e1, e2, d, "engine")
    if r:
        return r
    for i, (o1, o2) in enumerate(zip(e1.output_variables, e2.output_variables)):
        for f in ("minimum", "maximum", "aggregation"):
            r = _val_diff(getattr(o1, f), getattr(o2, f), d, f"engine.output_variables[{i}].{f}")
            if r:
                return r
    return None


def _what(path):
    """stable short id of a structural path: indices dropped"""
    import re
    return re.sub(r"\[[^\]]*\]", "", path).replace("engine.", "", 1)


def _term_numbers(t):
    """(kind, value) of the height and of every numeric parameter of a term (formulas and substitution variables are not numbers of FLL)"""
    import numpy as np
    out = [("height", t.height)]
    for k, x in vars(t).items():
        if k not in ("height", "name", "engine", "root", "formula", "variables"):
            out += [("term", y) for y in np.asarray(x, dtype=float).ravel().tolist()] if isinstance(x, (list, np.ndarray)) else ([("term", x)] if _is_num(x) else [])
    return out


def _numbers(e):
    """(kind, value) of every numeric parameter that the FuzzyLite Language prints with `decimals` digits"""
    out = []
    for v in list(e.input_variables) + list(e.output_variables):
        out += [("range", v.minimum), ("range", v.maximum)] + ([("default", v.default_value)] if hasattr(v, "default_value") else [])
        out += [x for t in v.terms for x in _term_numbers(t)]
    for rb in e.rule_blocks:
        out += [("threshold", rb.activation.threshold)] if hasattr(rb.activation, "threshold") else []
        out += [("weight", r.weight) for r in rb.rules]
    return out


def hypothesis(fl, e, d, weights_only=False):
    """the representability hypothesis of the value clauses (C14: every parameter; C15: the rule weights only)"""
    tol = fl.settings.atol + fl.settings.rtol
    for kind, x in _numbers(e):
        x = float(x)
        if kind in ("height", "weight") and x != 1.0 and not abs(x - 1.0) > tol * 1.0000001:
            return False
        if (kind == "weight" or not weights_only) and not _representable(x, d):
            return False
    return True


def input_rows(e, rng, n=10):
    cols = []
    for v in e.input_variables:
        lo = v.minimum if math.isfinite(v.minimum) else (v.maximum - 10.0 if math.isfinite(v.maximum) else -5.0)
        hi = v.maximum if math.isfinite(v.maximum) else lo + 10.0
        cols.append([lo, hi, (lo + hi) / 2.0] + [lo + (hi - lo) * rng.random() for _ in range(4)] + [math.nan, math.inf, -math.inf, lo - 1.0, hi + 0.5])
    if not cols:
        return [[]]
    rows = [[c[i] for c in cols] for i in range(len(cols[0]))] + [[rng.choice(c) for c in cols] for _ in range(3)]
    rest = rows[3:]
    rng.shuffle(rest)
    return (rows[:3] + rest)[:n]


def outputs(e, rows):
    """outputs of the engine on the row sequence (state carried from row to row): list of arrays or ('raise', ExceptionType)"""
    import numpy as np
    res = []
    for row in rows:
        try:
            e.input_values = np.array([row], dtype=float)
            e.process()
            res.append(np.array(e.output_values, dtype=float, copy=True))
        except Exception as ex:  # noqa
            res.append(("raise", type(ex).__name__))
    return res


def outputs_diff(r1, r2, rows):
    import numpy as np
    for row, a, b in zip(rows, r1, r2):
        if isinstance(a, tuple) or isinstance(b, tuple):
            if type(a) is not type(b) or a != b:
                return row, a if isinstance(a, tuple) else a.tolist(), b if isinstance(b, tuple) else b.tolist()
        elif a.shape != b.shape or not np.array_equal(a, b, equal_nan=True):
            return row, a.tolist(), b.tolist()
    return None


def _snippet(fl, e, steps):
    """reproduction: the steps as a function of the engine first, the (shrunk) engine last because its repr may be cut off"""
    with fl.settings.context(alias="fl"):
        try:
            code = repr(e)
        except Exception as ex:  # noqa
            code = f"<repr failed: {type(ex).__name__}>"
    return f"import fuzzylite as fl\ndef steps(e):\n    {steps}\nsteps({code})"


def _shrink(e, still_fails):
    """greedy delta-debugging on a deep copy: drop rule blocks, rules, variables, terms, descriptions while the same class persists"""
    def attempt(cur, edit):
        c = copy.deepcopy(cur)
        try:
            edit(c)
            return c if still_fails(c) else None
        except Exception:  # noqa
            return None
    cur = copy.deepcopy(e)
    changed = True
    while changed:
        changed = False
        edits = [lambda c, i=i: c.rule_blocks.pop(i) for i in range(len(cur.rule_blocks))]
        edits += [lambda c, i=i, j=j: c.rule_blocks[i].rules.pop(j) for i, rb in enumerate(cur.rule_blocks) for j in range(len(rb.rules))]
        edits += [lambda c, i=i: c.output_variables.pop(i) for i in range(len(cur.output_variables))]
        edits += [lambda c, i=i: c.input_variables.pop(i) for i in range(len(cur.input_variables))]
        for attr in ("input_variables", "output_variables"):
            edits += [lambda c, a=attr, i=i, j=j: getattr(c, a)[i].terms.pop(j) for i, v in enumerate(getattr(cur, attr)) for j in range(len(v.terms))]
        for get in (lambda c: [c], lambda c: c.input_variables, lambda c: c.output_variables, lambda c: c.rule_blocks):
            edits += [lambda c, g=get, i=i: setattr(g(c)[i], "description", "") for i, x in enumerate(get(cur)) if x.description]
        for edit in edits:
            nxt = attempt(cur, edit)
            if nxt is not None:
                cur, changed = nxt, True
                break
    return cur


# ------------------------------------------------------------------------------------------------------------------ C14
def _first_line_diff(t1, t2, sep="\n"):
    a, b = t1.split(sep), t2.split(sep)
    return next((f"{x.strip()!r} -> {y.strip()!r}" for x, y in zip(a, b) if x != y), f"{len(a)} lines -> {len(b)} lines")


class _Judge:
    """collects the first wanted failure of one case; unwanted ones are noted and the case goes on"""

    def __init__(self, wanted=None, note=None):
        self.wanted, self.note, self.hit = wanted, note, None

    def bad(self, cls, expected, observed):
        if self.hit is None:
            if self.wanted is None or self.wanted(cls):
                self.hit = (cls, str(expected), str(observed))
            elif self.note is not None:
                self.note(cls)
        return self.hit is not None

    def lib(self, where, fn, *a, **k):
        """call into the library: an escaping exception is a failing case of class crash:<Type>@<where>"""
        try:
            return True, fn(*a, **k)
        except Exception as ex:  # noqa
            self.bad(f"crash:{type(ex).__name__}@{where}", "no exception", f"{type(ex).__name__}: {ex}")
            return False, None


def fll_check(fl, e, d, seed=0, opts=("  ", "\n"), wanted=None, note=None):
    """every C14 clause for one engine at `decimals=d`: None or (class, expected, observed)"""
    J = _Judge(wanted, note)
    sfx = "" if opts[1] == "\n" else ":sep"
    with fl.settings.context(decimals=d):
        ex, im = fl.FllExporter(indent=opts[0], separator=opts[1]), fl.FllImporter(separator=opts[1])
        ok, t1 = J.lib("FllExporter.to_string", ex.to_string, e)
        ok, e2 = J.lib("FllImporter.from_string", im.from_string, t1) if ok else (False, None)
        ok, t2 = J.lib("FllExporter.to_string(imported)", ex.to_string, e2) if ok else (False, None)
        if not ok:
            return J.hit
        rep = hypothesis(fl, e, d)
        if t1 != t2 and J.bad("fll-text-not-fixed-point" + ("" if rep else ":unrepresentable") + sfx, "export(import(t1)) == t1", _first_line_diff(t1, t2, opts[1])):
            return J.hit
        sd = struct_diff(fl, e, e2, d)
        if sd and J.bad(f"fll-structure:{_what(sd[0])}" + sfx, f"{sd[0]} = {sd[1]!r}", f"{sd[2]!r} after import"):
            return J.hit
        if rep:
            rows = input_rows(e, random.Random(seed))
            od = outputs_diff(outputs(copy.deepcopy(e), rows), outputs(e2, rows), rows)
            if od:
                J.bad("fll-values" + sfx, f"outputs {od[1]} on row {od[0]} (original)", f"outputs {od[2]} (imported)")
    return J.hit


def _component_objects(fl, cat, N, engine, fn_vars=False):
    """one object of every registered class x parameter variant (terms get well-formed parameters inside [0, 10])"""
    fm, rng = fl.settings.factory_manager, N.rng
    names = [v.name for v in engine.input_variables]
    out = [("term", _make_term(fl, cat, N, c, rng.choice(TERM_NAMES), 0.0, 10.0, names, fn_vars, True)) for c in cat["terms"]]
    out += [("tnorm", fm.tnorm.constructors[n]()) for n in cat["tnorm"] if n] + [("snorm", fm.snorm.constructors[n]()) for n in cat["snorm"] if n]
    out += [("tnorm", None), ("snorm", None), ("activation", None), ("defuzzifier", None)]
    out += [("defuzzifier", fm.defuzzifier.constructors[n]() if p is None else fm.defuzzifier.constructors[n](p)) for n, p in cat["defuzz"]]
    out += [("activation", fm.activation.constructors[n](*[N.num(0.0, 1.0) if p == "num" else p for p in a])) for n, a in cat["acts"]]
    return out + [("hedge", fm.hedge.constructors[n]()) for n in cat["hedge"]]


def _memberships_differ(c, c2, host, attach_second=True):
    """bit-identical membership degrees (or the same exception) of two terms attached to the host engine: None or (m1, m2)"""
    import numpy as np
    res = []
    for t in (c, c2):
        try:
            if t is c or attach_second:  # the FLL importer is given the engine and has to attach the term itself
                t.update_reference(host)
            res.append(np.array(t.membership(np.array([-1.0, 0.0, 0.5, 2.5, 3.3, 5.0, 7.75, 10.0, 11.0, math.nan, math.inf, -math.inf])), dtype=float))
        except Exception as ex:  # noqa
            res.append(("raise", type(ex).__name__))
    a, b = res
    same = (type(a) is type(b) and a == b) if isinstance(a, tuple) or isinstance(b, tuple) else (a.shape == b.shape and bool(np.array_equal(a, b, equal_nan=True)))
    return None if same else (a, b)


def fll_component_check(fl, kind, c, d, host, wanted=None, note=None):
    """export -> import -> export of one component through the per-component methods of FllExporter / FllImporter"""
    J = _Judge(wanted, note)
    cname = type(c).__name__ if c is not None else "none"
    tag = f"fll-component:{cname}"
    with fl.settings.context(decimals=d):
        ex, im = fl.FllExporter(), fl.FllImporter()
        if kind == "hedge":  # hedges are written by name (`str`) and read back through the hedge factory
            ok, c2 = J.lib("HedgeFactory.construct", fl.settings.factory_manager.hedge.construct, str(c))
            if ok and type(c2) is not type(c):
                J.bad(tag, cname, type(c2).__name__)
            return J.hit
        exporter = {"term": ex.term, "tnorm": ex.norm, "snorm": ex.norm, "activation": ex.activation, "defuzzifier": ex.defuzzifier}[kind]
        importer = {"term": lambda t: im.term(t, host), "tnorm": im.tnorm, "snorm": im.snorm, "activation": im.activation, "defuzzifier": im.defuzzifier}[kind]
        ok, t1 = J.lib(f"FllExporter.{kind}", exporter, c)
        ok, c2 = J.lib(f"FllImporter.{kind}", importer, t1) if ok else (False, None)
        ok, t2 = J.lib(f"FllExporter.{kind}(imported)", exporter, c2) if ok else (False, None)
        if not ok or (t1 != t2 and J.bad(tag + ":text", t1, t2)):
            return J.hit
        if c is None or c2 is None:
            if c is not c2:
                J.bad(tag + ":class", "None", repr(c2))
            return J.hit
        sd = _obj_diff(c, c2, d, cname)
        if sd and J.bad(tag + ":" + _what(sd[0]), f"{sd[0]} = {sd[1]!r}", f"{sd[2]!r} after import of {t1!r}"):
            return J.hit
        if kind != "term":
            ok, c3 = J.lib("FllImporter.component", im.component, type(c), t1)
            if ok and (sd3 := _obj_diff(c, c3, d, cname)):
                J.bad(tag + ":component()", f"{sd3[0]} = {sd3[1]!r}", repr(sd3[2]))
        elif all(_representable(x, d) for k, x in _term_numbers(c)) and (c.height == 1.0 or abs(c.height - 1.0) > fl.settings.atol + fl.settings.rtol):
            md = _memberships_differ(c, c2, host, False)
            if md:
                J.bad(tag + ":values", f"membership {md[0]}", f"{md[1]} after import of {t1!r}")
    return J.hit


# importer-accepted texts with odd but legal formatting: sparse / missing optional lines, comments, wide gaps, integers, exponents, keys in any order,
# empty values, non-identifier names, repeated keys, default parameters written out
HAND_TEXTS = (
    "Engine: only a name",
    "Engine:\nInputVariable: a\nOutputVariable: o\nRuleBlock:\n",
    "# leading comment\n\n   Engine:   spaced   name     # trailing comment\n description:   some   text : with colon\nInputVariable:   a\n"
    "     term:   lo    Triangle   0   0.5   1     # ints and sparse\n  range:  0   1\n  term: hi Ramp 0.25 1 0.5\n  enabled:   true\nOutputVariable: o\n"
    "  term: c Constant 1\n  defuzzifier:   WeightedAverage\n  term: l Linear 1 2\n  default: 0.5\n  lock-previous:  true\n  aggregation:\nRuleBlock:\n"
    "  activation:  First\n  rule:   if   a   is   very lo   then   o   is   c   with   0.5   # comment\n  rule: if a is hi then o is l\n  conjunction: none\n",
    "Engine: no optional lines\nInputVariable: a\n  term: t Bell\n  term: u Discrete\n  term: v Discrete 0 1 1 0 0.5\n  term: w Binary 0.5 inf\nOutputVariable: o\n"
    "  defuzzifier: Centroid 1000\n  aggregation: Maximum\n  term: t Gaussian 0.5 0.1 0.5\nOutputVariable: p\n  defuzzifier: MeanOfMaximum 10\n  range: -inf inf\n"
    "  default: nan\n  term: k Constant -inf\nRuleBlock: first\n  implication: AlgebraicProduct\n  activation: Threshold\n"
    "  rule: if (a is t or a is any) and a is not w then o is very t and p is k\nRuleBlock: second\n  enabled: false\n  activation: Highest 2\n  activation: Last 2 0.5\n",
    "Engine: 9 lives\nInputVariable: 1st input!\n  range: 1e-1 1E1\n  term: a-b Triangle .5 1. +2\nOutputVariable: out put\n  defuzzifier: WeightedSum Tsukamoto\n"
    "  term: r Ramp 1 0\n  term: f Function 2*_1stinput + 1\nRuleBlock:\n  activation: Proportional\n  rule: if _1stinput is ab then output is r\n",
)
# the same with numerals that the configured decimals cannot hold (more digits; heights / weights within the tolerance of 1 after rounding)
ROUNDING_TEXTS = (
    "Engine: e\nInputVariable: a\n  range: 0.12345 1.000000001\n  term: t Triangle 0.0004 0.0005 0.0015 0.99949\nOutputVariable: o\n  default: 0.3333333333\n"
    "  term: c Constant 0.123456789\nRuleBlock:\n  activation: First 1 0.12345\n  rule: if a is t then o is c with 0.4995\n",
    "Engine: e\nInputVariable: a\n  term: t Triangle 0 1 2 1.0014\n",
    "Engine: e\nInputVariable: a\n  term: t Triangle 0 1 2 0.9986\n",
    "Engine: e\nInputVariable: a\n  term: t Ramp 0 1\nOutputVariable: o\n  term: c Constant 1\nRuleBlock:\n  rule: if a is t then o is c with 1.0014\n",
)


def _noise(text, rng):
    """legal reformatting of a FuzzyLite Language text: indentation, blank / comment lines, trailing comments, wider gaps, dropped optional lines"""
    out = []
    for line in text.split("\n"):
        key = line.split(":", 1)[0].strip()
        if key in ("enabled", "lock-range", "lock-previous", "default", "description", "conjunction", "disjunction", "activation") and rng.random() < 0.1:
            continue
        if line.strip() and key != "description" and " Function " not in line and rng.random() < 0.5:
            line = "".join(w + " " * rng.randint(1, 3) for w in line.split())
        line = " " * rng.randrange(6) + line.strip() + ("   # note: " + rng.choice(("x", "rule: if a is b", "term: t Triangle")) if rng.random() < 0.15 else "")
        out += [line] + ([rng.choice(("", "   ", "# a comment line", "  # term: zz Triangle 0 1 2"))] if rng.random() < 0.1 else [])
    return "\n".join(out)


def normalise_check(fl, text, d, wanted=None, note=None):
    """export(import(.)) is idempotent on an accepted text; returns (accepted, failure)"""
    J = _Judge(wanted, note)
    with fl.settings.context(decimals=d):
        try:
            e1 = fl.FllImporter().from_string(text)
        except Exception:  # noqa: the importer does not accept the text: nothing is claimed
            return False, None
        ok, n1 = J.lib("FllExporter.to_string", fl.FllExporter().to_string, e1)
        ok, e2 = J.lib("FllImporter.from_string(normalised)", fl.FllImporter().from_string, n1) if ok else (False, None)
        ok, n2 = J.lib("FllExporter.to_string", fl.FllExporter().to_string, e2) if ok else (False, None)
        if ok and n1 != n2:
            J.bad("fll-normalise-not-idempotent" + ("" if hypothesis(fl, e1, d) else ":rounding"), "export(import(n1)) == n1", _first_line_diff(n1, n2))
    return True, J.hit


def _entry(fl, body, seed, skip_classes, only_class, kw):
    """common frame of the entry points: bookkeeping, decks, a two-input host engine for lone terms; restores the settings"""
    global EMPTY_FUNCTION, INT_PARAMS
    run, saved, rng = _Run(skip_classes, only_class), dict(vars(fl.settings)), random.Random(seed)
    try:
        EMPTY_FUNCTION, INT_PARAMS = bool(kw.get("empty_function", False)), bool(kw.get("int_params", False))
        host = fl.Engine(name="host", input_variables=[fl.InputVariable(name="a", minimum=0.0, maximum=10.0), fl.InputVariable(name="b", minimum=0.0, maximum=10.0)])
        host.input_values = fl.scalar([[2.5, 7.25]])
        extra = body(run, rng, lambda c: run.skipped.__setitem__(c, run.skipped.get(c, 0) + 1), _Cover(rng), _catalog(fl), host) or {}
        return {**run.done(), **extra}
    except _Fail as f:
        return {**f.result, "cases": run.cases, **({"skipped": dict(run.skipped)} if run.skipped else {})}
    finally:
        EMPTY_FUNCTION = INT_PARAMS = False
        for k, v in saved.items():
            setattr(fl.settings, k, v)


def replay_fll_roundtrip(fl, FA, vals=None, seed=0, budget=200, skip_classes=(), only_class=None, disabled_rules=False, shrink=True, **kw):
    """C14.  `budget` generated engines (each at its own grid decimals d = 1..9 and at one other decimals setting; every 10th engine has
    arbitrary doubles; every 3rd uses non-default exporter indent / separator), every registered component class x parameter variant x
    decimals 1..9 on its own, and the normalisation of the shipped examples (verbatim and reformatted) and of hand-written texts.
    Keywords: disabled_rules (Rule.enabled=False has no FLL syntax: off by default), empty_function (Function('f') with no formula), shrink."""
    def body(run, rng, note, cover, cat, host):
        for rep in range(max(1, budget // 100)):  # (1) per-component pairs
            for d in range(1, 10):
                for kind, c in _component_objects(fl, cat, _Num(rng, "decimals" if (d + rep) % 3 else "doubles", d), host):
                    run.cases += 1
                    hit = fll_component_check(fl, kind, c, d, host, run.wanted, note)
                    if hit:
                        with fl.settings.context(alias="fl"):
                            run.fail(*hit, f"import fuzzylite as fl\nc = {c!r}\nwith fl.settings.context(decimals={d}): "
                                     f"x = fl.FllExporter().{'norm' if 'norm' in kind else kind}(c); c2 = fl.FllImporter().{kind}(x)")
        for i in range(budget):  # (2) engines
            d = 1 + i % 9
            with fl.settings.context(decimals=d):
                e = gen_engine(fl, rng, "doubles" if i % 10 == 9 else "decimals", cover, decimals=d, disabled_rules=disabled_rules, quotes=False, fn_vars=False)
            run.distinct.add(fl.FllExporter().to_string(e))
            opts = (("  ", "\n"), ("", "\n"), ("\t", "\n"), ("  ", ";"), ("    ", "\n\n"))[i % 5 if i % 3 == 0 else 0]
            if opts[1] != "\n" and any(opts[1].strip() in x.description for x in [e] + e.variables + e.rule_blocks):
                opts = ("  ", "\n")
            for dd in (d, rng.randint(1, 9)):
                run.cases += 1
                hit = fll_check(fl, e, dd, seed + i, opts, run.wanted, note)
                if hit:
                    small = _shrink(e, lambda c: (fll_check(fl, c, dd, seed + i, opts) or (None,))[0] == hit[0]) if shrink else e
                    hit = fll_check(fl, small, dd, seed + i, opts, lambda c: c == hit[0]) or hit
                    xa = "" if opts == ("  ", "\n") else f"indent={opts[0]!r}, separator={opts[1]!r}"
                    run.fail(*hit, _snippet(fl, small, f"with fl.settings.context(decimals={dd}):\n        t1 = fl.FllExporter({xa}).to_string(e); e2 = fl.FllImporter("
                             + ("" if opts[1] == "\n" else f"separator={opts[1]!r}") + f").from_string(t1); t2 = fl.FllExporter({xa}).to_string(e2)  # engine #{i} of seed {seed}"))
        root = os.path.join(os.path.dirname(os.path.abspath(fl.__file__)), "examples")  # (3) normalisation of accepted texts
        texts = [(os.path.relpath(f, root), open(f, encoding="utf-8").read()) for f in sorted(glob.glob(os.path.join(root, "**", "*.fll"), recursive=True))]
        jobs = [(n, t, 3) for n, t in texts] + [(f"HAND_TEXTS[{j}]", t, dd) for j, t in enumerate(HAND_TEXTS) for dd in (3, 1, 6)]
        jobs += [(f"ROUNDING_TEXTS[{j}]", t, dd) for j, t in enumerate(ROUNDING_TEXTS) for dd in (3, 2, 5)]
        for k in range(max(1, budget // 4)):
            n, t = texts[k % len(texts)] if texts else ("HAND_TEXTS[2]", HAND_TEXTS[2])
            jobs.append((f"_noise({n}, Random({seed * 1000 + k}))", _noise(t, random.Random(seed * 1000 + k)), rng.choice((3, 3, 1, 2, 7))))
        accepted = 0
        for n, t, dd in jobs:
            run.cases += 1
            acc, hit = normalise_check(fl, t, dd, run.wanted, note)
            accepted += acc
            if hit:
                run.fail(*hit, f"text = {n} ; with fl.settings.context(decimals={dd}): n1 = fl.FllExporter().to_string(fl.FllImporter().from_string(text)); "
                         f"n2 = fl.FllExporter().to_string(fl.FllImporter().from_string(n1))" + (f"\ntext = {t!r}" if len(t) < 500 else ""))
        return {"accepted_texts": accepted, "texts": len(jobs)}
    return _entry(fl, body, seed, skip_classes, only_class, kw)


# ------------------------------------------------------------------------------------------------------------------ C15
def _rebuild(fl, code, encapsulated, pre_import=True):
    """fresh namespace: the library's import statement, then the exported code; returns the object the code builds"""
    import re
    ns = {}
    exec(fl.representation.import_statement() if pre_import else "", ns)
    if not encapsulated:
        return eval(code, ns)
    exec(code, ns)
    m = re.search(r"^class\s+(\w+)", code, re.M)  # engines: `class <PascalCase(name)>` with `.engine`; other objects: `def create()`
    return ns[m.group(1)]().engine if m else ns["create"]()


def _str_diff(a, b):
    i = next((k for k, (x, y) in enumerate(zip(a, b)) if x != y), min(len(a), len(b)))
    return f"...{a[max(0, i - 60):i + 60]}...", f"...{b[max(0, i - 60):i + 60]}..."


def _fll_at(fl, x, d):
    with fl.settings.context(decimals=d):
        return fl.FllExporter().to_string(x)


def _code_of(fl, c, form, method="to_string"):
    """the Python code under judgement: `repr(c)` or PythonExporter(formatted, encapsulated).<method>(c)"""
    return repr(c) if form == "repr" else getattr(fl.PythonExporter(formatted=form[0], encapsulated=form[1]), method)(c)


def _how(form, x):
    code = f"code = repr({x})" if form == "repr" else f"code = fl.PythonExporter(formatted={form[0]}, encapsulated={form[1]}).to_string({x})"
    run = f"{x}2 = eval(code, ns)" if form == "repr" or not form[1] else "exec(code, ns)  # then ns[<Class>]().engine / ns['create']()"
    return f"{code}; ns = {{}}; exec(fl.representation.import_statement(), ns); {run}"


def py_check(fl, e, alias, form, d=3, ref=None, rows=None, wanted=None, note=None):
    """every C15 clause for one engine, one alias and one form (`"repr"` or `(formatted, encapsulated)`): None or (class, expected, observed)"""
    import re
    J = _Judge(wanted, note)
    with fl.settings.context(alias=alias, decimals=d):
        ok, r0 = J.lib("repr", repr, e)
        ok1, f0 = J.lib("FllExporter.to_string", _fll_at, fl, e, d)
        if not (ok and ok1):
            return J.hit
        code = ""
        try:
            if form != "repr" and form[0]:  # the formatter needs valid Python: judge the unformatted code first
                code = _code_of(fl, e, (False, form[1]))
                compile(code, "<exported>", "exec" if form[1] else "eval")
            ok, code = J.lib("PythonExporter.to_string", _code_of, fl, e, form)
            if not ok:
                return J.hit
            e2 = _rebuild(fl, code, form != "repr" and form[1])
        except Exception as ex:  # noqa
            m = re.search(r"^class (.*):$", code, re.M)
            sub = ""
            if m and isinstance(ex, SyntaxError) and not m.group(1).isidentifier():
                sub = ":class-name"  # `class <PascalCase(engine.name)>:` is not valid Python
            elif m and alias == "*" and hasattr(fl, m.group(1)):
                sub = ":class-shadows"  # the generated class takes the name of a library class imported by `from fuzzylite import *`
            J.bad(f"py-exec-error:{type(ex).__name__}{sub}", "the import statement followed by the exported code builds the engine", f"{type(ex).__name__}: {ex}" + (f" in {m.group(0)!r}" if sub else ""))
            return J.hit
        if form != "repr" and form[1]:  # extra (not in the statement, own class): the encapsulated code starts with the import statement it needs
            try:
                _rebuild(fl, code, True, pre_import=False)
            except Exception as ex:  # noqa
                if J.bad(f"py-exec-error:{type(ex).__name__}:self-contained", "the encapsulated code runs in an empty namespace", f"{type(ex).__name__}: {ex}"):
                    return J.hit
        ok, r2 = J.lib("repr(rebuilt)", repr, e2)
        if ok and r2 != r0 and J.bad("py-repr", *_str_diff(r0, r2)):
            return J.hit
        for dd in (d, 9):
            ok, f2 = J.lib("FllExporter.to_string(rebuilt)", _fll_at, fl, e2, dd)
            if ok and f2 != _fll_at(fl, e, dd) and J.bad("py-fll", f"same FuzzyLite Language text at decimals={dd}", _first_line_diff(_fll_at(fl, e, dd), f2)):
                return J.hit
        if ok and rows is not None and hypothesis(fl, e, d, weights_only=True):
            od = outputs_diff(ref, outputs(e2, rows), rows)
            if od:
                J.bad("py-values", f"outputs {od[1]} on row {od[0]} (original)", f"outputs {od[2]} (rebuilt)")
    return J.hit


_PY_METHOD = {"term": "term", "tnorm": "norm", "snorm": "norm", "activation": "activation", "defuzzifier": "defuzzifier", "rule": "rule", "rule_block": "rule_block",
              "input_variable": "input_variable", "output_variable": "output_variable"}


def py_component_check(fl, kind, c, alias, form, host, wanted=None, note=None):
    """the repr / PythonExporter code of one component rebuilds a component with the same repr, the same FLL text and (terms) the same membership"""
    J = _Judge(wanted, note)
    tag = f"py-component:{type(c).__name__ if c is not None else 'none'}"
    with fl.settings.context(alias=alias):
        ok, r0 = J.lib("repr", repr, c)
        ok, code = J.lib("PythonExporter", _code_of, fl, c, form, _PY_METHOD.get(kind, "to_string") if form != "repr" and not form[1] else "to_string") if ok else (False, None)
        if not ok:
            return J.hit
        try:
            c2 = _rebuild(fl, code, form != "repr" and form[1])
        except Exception as ex:  # noqa
            J.bad(tag, f"the import statement followed by {code!r} builds the component", f"{type(ex).__name__}: {ex}")
            return J.hit
        ok, r2 = J.lib("repr(rebuilt)", repr, c2)
        if not ok or (r2 != r0 and J.bad(tag, *_str_diff(r0, r2))):
            return J.hit
        if c is not None and kind not in ("hedge", "other"):
            ok, f2 = J.lib("FllExporter.to_string(rebuilt)", _fll_at, fl, c2, 9)
            if not ok or (f2 != _fll_at(fl, c, 9) and J.bad(tag, _fll_at(fl, c, 9), f2)):
                return J.hit
        if kind == "term":
            md = _memberships_differ(c, c2, host)
            if md:
                J.bad(tag, f"membership {md[0]}", f"{md[1]} from {code!r}")
    return J.hit


def _have_black():
    try:
        import black  # noqa: F401
        return True
    except Exception:  # noqa
        return False


def replay_python_roundtrip(fl, FA, vals=None, seed=0, budget=200, skip_classes=(), only_class=None, disabled_rules=False, shrink=True, **kw):
    """C15.  budget // 5 generated engines (arbitrary doubles, weights on the grid of decimals 3 / 1 / 6, quotes and backslashes in descriptions,
    every 4th engine taken from the FLL importer so that its parameters are numpy scalars) x 4 aliases x {repr, encapsulated class}, plus
    PythonExporter(formatted=False) and both black-formatted forms under one alias each (skipped, and reported as "black": False, when black is
    not importable); every component class x parameter variant, Activated / Aggregated / Antecedent / Consequent, the variables, rule blocks and
    rules of a generated engine x 4 aliases x {repr, create()} (+ per-kind exporter method and formatted forms under one alias)."""
    black = _have_black()

    def body(run, rng, note, cover, cat, host):
        for rep in range(max(1, budget // 100)):  # (1) components on their own
            N = _Num(rng, "doubles", 3)
            tri = fl.Triangle("t", 0.1 + 0.2, 1.0 / 3.0, 2.0 / 3.0, 0.75)
            comps = _component_objects(fl, cat, N, host, fn_vars=True)
            comps += [("term", fl.Activated(tri, N.num(0.0, 1.0), fl.Minimum())), ("term", fl.Activated(tri, 1.0, None)), ("other", fl.Antecedent("a is very t")),
                      ("term", fl.Aggregated("agg", -math.inf, N.special(), fl.Maximum(), [fl.Activated(tri, N.num(0.0, 1.0), fl.AlgebraicProduct())])),
                      ("other", fl.Consequent("o is t and p is not t"))]
            e = gen_engine(fl, rng, "doubles", cover, disabled_rules=disabled_rules)
            comps += [("input_variable", v) for v in e.input_variables] + [("output_variable", v) for v in e.output_variables]
            comps += [("rule_block", rb) for rb in e.rule_blocks] + [("rule", r) for rb in e.rule_blocks for r in rb.rules]
            for k, (kind, c) in enumerate(comps):
                forms = [(a, f) for a in ALIASES for f in (("repr", (False, True)) if c is not None else ("repr",))] + [(ALIASES[k % 4], (False, False))]
                forms += [(ALIASES[k % 4], (True, False)), (ALIASES[(k + 1) % 4], (True, True))] if black and c is not None else []
                for alias, form in forms:
                    run.cases += 1
                    hit = py_component_check(fl, kind, c, alias, form, e if "variable" in kind else host, run.wanted, note)
                    if hit:
                        with fl.settings.context(alias="fl"):
                            run.fail(*hit, f"import fuzzylite as fl\nc = {c!r}\nwith fl.settings.context(alias={alias!r}):\n    {_how(form, 'c')}")
        for i in range(max(2, budget // 5)):  # (2) engines
            d = (3, 3, 1, 3, 6)[i % 5]
            with fl.settings.context(decimals=d):
                e = gen_engine(fl, rng, "doubles", cover, decimals=d, disabled_rules=disabled_rules)
                if i % 4 == 3:
                    e = fl.FllImporter().from_string(fl.FllExporter().to_string(gen_engine(fl, rng, "decimals", cover, decimals=d, quotes=True)))
            run.distinct.add(_fll_at(fl, e, 9))
            rows = input_rows(e, random.Random(seed + i), n=8)
            ref = outputs(copy.deepcopy(e), rows)
            forms = [(a, f) for a in ALIASES for f in ("repr", (False, True))] + [(ALIASES[i % 4], (False, False))]
            forms += [(ALIASES[i % 4], (True, False)), (ALIASES[(i + 1) % 4], (True, True))] if black else []
            for alias, form in forms:
                run.cases += 1
                hit = py_check(fl, e, alias, form, d, ref, rows, run.wanted, note)
                if hit:
                    def same(c, only=None):
                        return py_check(fl, c, alias, form, d, outputs(copy.deepcopy(c), rows), rows, only)
                    small = _shrink(e, lambda c: (same(c) or (None,))[0] == hit[0]) if shrink else e
                    hit = same(small, lambda c: c == hit[0]) or hit
                    run.fail(*hit, _snippet(fl, small, f"with fl.settings.context(alias={alias!r}, decimals={d}):\n        {_how(form, 'e')}  # engine #{i} of seed {seed}"))
        return {"black": black}
    return _entry(fl, body, seed, skip_classes, only_class, kw)
