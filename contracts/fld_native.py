"""Native replay for the grid-size clause of C18 (FldExporter.write_from_scope, scope AllVariables): runs the REAL exporter on an engine
with n input variables and counts the rows; oracle = k**n with k the largest integer such that k**n <= values (integer arithmetic)."""


def _engine(fl, n):
    ivs = [fl.InputVariable(f"i{j}", minimum=0.0, maximum=1.0, terms=[fl.Ramp("t", 0.0, 1.0)]) for j in range(n)]
    ov = fl.OutputVariable("o", minimum=0.0, maximum=1.0, defuzzifier=fl.WeightedAverage(), terms=[fl.Constant("c", 0.5)])
    return fl.Engine("g", input_variables=ivs, output_variables=[ov], rule_blocks=[fl.RuleBlock(activation=fl.General(), rules=[fl.Rule.create("if i0 is t then o is c")])])


def _k(n, v):
    k = 1
    while (k + 1) ** n <= v:
        k += 1
    return k


def _rows(fl, engine, v):
    txt = fl.FldExporter(headers=False).to_string_from_scope(engine, values=v, scope=fl.FldExporter.ScopeOfValues.AllVariables)
    return sum(1 for line in txt.splitlines() if line.strip())


def replay_resolution(fl, FA, vals=None, n=3, v=None, **kw):
    v = int(v if v is not None else (vals or {}).get("v", 64))
    if not (1 <= v <= 4000 and 1 <= n <= 4):
        return {"failed": False, "skipped": "outside the property's domain"}
    e = _engine(fl, n)
    got, want = _rows(fl, e, v), _k(n, v) ** n
    return {"failed": got != want, "class": f"fld-rowcount:n={n}", "expected": f"{want} rows (k = {_k(n, v)} values per input, k**{n} <= {v} < (k+1)**{n})", "observed": f"{got} rows",
            "call": f"FldExporter().to_string_from_scope(<engine with {n} input variables>, values={v}, scope=AllVariables)", "cases": 1}


def search_resolution(fl, FA, vals=None, n=3, seed=0, limit=2000, **kw):
    """directed search: the perfect n-th powers of the property's domain (values = 1..2000) and their neighbours; returns the first failure
    and the full list of failing sizes in `all_failing`"""
    e = _engine(fl, n)
    bad, cases = [], 0
    cand = sorted({c for k in range(1, 2001) for c in (k ** n - 1, k ** n, k ** n + 1) if 1 <= c <= limit}) if n > 1 else [1, 2, 3, 10, 100, 1000, 2000]
    for v in cand:
        cases += 1
        got, want = _rows(fl, e, v), _k(n, v) ** n
        if got != want:
            bad.append((v, got, want))
    if bad:
        v, got, want = bad[0]
        return {"failed": True, "class": f"fld-rowcount:n={n}", "expected": f"{want} rows", "observed": f"{got} rows", "all_failing": [b[0] for b in bad],
                "call": f"FldExporter().to_string_from_scope(<engine with {n} input variables>, values={v}, scope=AllVariables)", "cases": cases}
    return {"failed": False, "cases": cases, "distinct": cases}
