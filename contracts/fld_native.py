"""Native replay for the grid-size clause of C18 (FldExporter.write_from_scope, scope AllVariables): runs the REAL exporter on an engine
with n input variables and counts the rows; oracle = k**n with k the largest integer such that k**n <= values (integer arithmetic)."""


def _engine(fl, n):
    ivs = [fl.InputVariable(f"i{j}", minimum=0.0, maximum=1.0, terms=[fl.Ramp("t", 0.0, 1.0)]) for j in range(n)]
    ov = fl.OutputVariable("o", minimum=0.0, maximum=1.0, defuzzifier=fl.WeightedAverage(), terms=[fl.Constant("c", 0.5)])
    return fl.Engine("g", input_variables=ivs, output_variables=[ov], rule_blocks=[fl.RuleBlock(activation=fl.General(), rules=[fl.Rule.create("if i0 is t then o is c")])])


def _k(n, v):
    k = 1
    while (k + 1) ** n <= v:
        k += 1
    return k


def _rows(fl, engine, v):
    txt = fl.FldExporter(headers=False).to_string_from_scope(engine, values=v, scope=fl.FldExporter.ScopeOfValues.AllVariables)
    return sum(1 for line in txt.splitlines() if line.strip())


def replay_resolution(fl, FA, vals=None, n=3, v=None, **kw):
    v = int(v if v is not None else (vals or {}).get("v", 64))
    if not (1 <= v <= 4000 and 1 <= n <= 4):
        return {"failed": False, "skipped": "outside the property's domain"}
    e = _engine(fl, n)
    got, want = _rows(fl, e, v), _k(n, v) ** n
    return {"failed": got != want, "class": f"fld-rowcount:n={n}", "expected": f"{want} rows (k = {_k(n, v)} values per input, k**{n} <= {v} < (k+1)**{n})", "observed": f"{got} rows",
            "call": f"FldExporter().to_string_from_scope(<engine with {n} input variables>, values={v}, scope=AllVariables)", "cases": 1}


def search_resolution(fl, FA, vals=None, n=3, seed=0, limit=2000, **kw):
    """directed search: the perfect n-th powers of the property's domain (values = 1..2000) and their neighbours; returns the first failure
    and the full list of failing sizes in `all_failing`"""
    e = _engine(fl, n)
    bad, cases = [], 0
    cand = sorted({c for k in range(1, 2001) for c in (k ** n - 1, k ** n, k ** n + 1) if 1 <= c <= limit}) if n > 1 else [1, 2, 3, 10, 100, 1000, 2000]
    for v in cand:
        cases += 1
        got, want = _rows(fl, e, v), _k(n, v) ** n
        if got != want:
            bad.append((v, got, want))
    if bad:
        v, got, want = bad[0]
        return {"failed": True, "class": f"fld-rowcount:n={n}", "expected": f"{want} rows", "observed": f"{got} rows", "all_failing": [b[0] for b in bad],
                "call": f"FldExporter().to_string_from_scope(<engine with {n} input variables>, values={v}, scope=AllVariables)", "cases": cases}
    return {"failed": False, "cases": cases, "distinct": cases}


def replay_wrappers(fl, FA, vals=None, **kw):
    """the string / file / writer variants of one export print the same dataset: every argument (values, scope, active variables, skipped lines) reaches
    write_from_scope / write_from_reader whichever entry point is used"""
    import io, os, tempfile
    from pathlib import Path
    e = _engine(fl, 2)
    S = fl.FldExporter.ScopeOfValues
    cases = 0
    tmp = tempfile.mkdtemp(prefix="pyvc_fld_")
    try:
        for scope in (S.EachVariable, S.AllVariables):
            for v in (3, 5, 16):
                for act in (None, {e.input_variables[0]}, {e.input_variables[1]}):
                    cases += 1
                    exp = fl.FldExporter()
                    w = io.StringIO(); exp.write_from_scope(e, w, v, scope, act)
                    ref = w.getvalue()
                    txt = exp.to_string_from_scope(e, v, scope, act)
                    p = Path(tmp) / "out.fld"
                    exp.to_file_from_scope(p, e, v, scope, act)
                    got = p.read_text()
                    for nm, t in (("to_string_from_scope", txt), ("to_file_from_scope", got)):
                        if t != ref:
                            return {"failed": True, "class": "fld-wrapper:" + nm, "expected": f"{len(ref.splitlines())} lines, as write_from_scope", "observed": f"{len(t.splitlines())} lines: {t[:120]!r}", "cases": cases,
                                    "call": f"FldExporter().{nm}(engine with 2 inputs, values={v}, scope={scope.name}, active_variables={'None' if act is None else [x.name for x in act]})"}
        rows = "# comment\n0.1 0.2\n\n0.3 0.4\n0.5 0.6\n"
        for skip in (0, 1, 2, 3):
            cases += 1
            exp = fl.FldExporter()
            w = io.StringIO(); exp.write_from_reader(e, w, io.StringIO(rows), skip)
            ref = w.getvalue()
            txt = exp.to_string_from_reader(e, io.StringIO(rows), skip)
            p = Path(tmp) / "out2.fld"
            exp.to_file_from_reader(p, e, io.StringIO(rows), skip)
            got = p.read_text()
            for nm, t in (("to_string_from_reader", txt), ("to_file_from_reader", got)):
                if t != ref:
                    return {"failed": True, "class": "fld-wrapper:" + nm, "expected": ref[:200], "observed": t[:200], "cases": cases, "call": f"FldExporter().{nm}(engine, reader, skip_lines={skip})"}
    finally:
        for f in os.listdir(tmp):
            os.remove(os.path.join(tmp, f))
        os.rmdir(tmp)
    return {"failed": False, "cases": cases, "distinct": cases}
