"""Native side for the Discrete term: replay of the symbolic clauses and the bounded stand-in for the assumed contract
of numpy.interp (piecewise-linear interpolation with end values outside the table; NaN iff x is NaN)."""


def _lerp(xs, ys, x):
    import math
    if math.isnan(x):
        return math.nan
    if x <= xs[0]:
        return ys[0]
    if x >= xs[-1]:
        return ys[-1]
    for i in range(len(xs) - 1):
        if xs[i] <= x <= xs[i + 1]:
            t = (x - xs[i]) / (xs[i + 1] - xs[i])
            return ys[i] + t * (ys[i + 1] - ys[i])
    return math.nan


def replay(fl, FA, clause, vals=None):
    import numpy as np
    vals = vals or {}
    h = float(vals.get("height", 1.0)); x = float(vals.get("x", 0.3))
    if not (0 < h <= 1):
        return {"failed": False, "skipped": "invalid height"}
    xs, ys = [0.0, 0.25, 0.5, 1.0], [0.0, 1.0, 0.5, 0.25]
    t = fl.Discrete("d", fl.Discrete.to_xy(xs, ys), height=h)
    if clause == "elementwise":
        arr = np.array([x, 0.25, 0.3, -1.0, 2.0, np.inf, -np.inf, np.nan])
        try:
            got = np.asarray(t.membership(arr), dtype=float)
            exp = np.array([np.float64(t.membership(v)) for v in arr])
            ok = got.shape == arr.shape and all(FA.same(a, b) for a, b in zip(got, exp))
            return {"failed": not ok, "expected": exp.tolist(), "observed": got.tolist(), "call": "Discrete.membership(array)"}
        except Exception as ex:  # noqa
            return {"failed": True, "expected": "element-wise", "observed": f"{type(ex).__name__}: {ex}"}
    obs = np.float64(t.membership(x))
    exp = h * _lerp(xs, ys, x)
    if clause == "closed_form":
        return {"failed": not FA.same(exp, obs), "expected": exp, "observed": float(obs), "call": f"Discrete({xs},{ys},h={h}).membership({x})"}
    if clause == "nan_iff":
        return {"failed": bool(np.isnan(obs)) != bool(np.isnan(x)), "expected": "NaN iff x NaN", "observed": float(obs)}
    if clause == "range":
        return {"failed": not (np.isnan(x) or 0 <= obs <= h), "expected": f"[0,{h}]", "observed": float(obs)}
    raise KeyError(clause)


def bounded(fl, FA, seed=0, n=300):
    import numpy as np
    rng = np.random.default_rng(seed)
    cases = distinct = 0
    seen = set()
    for _ in range(n):
        k = int(rng.integers(2, 9))
        xs = np.sort(rng.uniform(-5, 5, size=k)); ys = rng.uniform(0, 1, size=k)
        if len(set(xs.tolist())) != k:
            continue
        dup = None
        if rng.random() < 0.3:
            # a vertical edge: the same x twice with two different y (the value AT the edge is not fixed by the definition and is not judged; every other x is)
            j = int(rng.integers(0, k))
            dup = float(xs[j])
            xs = np.insert(xs, j, xs[j]); ys = np.insert(ys, j, rng.uniform(0, 1)); k += 1
        h = float(rng.choice([1.0, 0.5, rng.uniform(0.01, 1.0)]))
        t = fl.Discrete("d", fl.Discrete.to_xy(xs.tolist(), ys.tolist()), height=h)
        pts = list(xs) + [np.nextafter(v, np.inf) for v in xs] + [np.nextafter(v, -np.inf) for v in xs] + [v for v in (xs[:-1] + xs[1:]) / 2] + [xs[0] - 1, xs[-1] + 1, np.inf, -np.inf, np.nan]
        if dup is not None:
            pts = [v for v in pts if not v == dup]
        arr = np.array(pts, dtype=float)
        got = np.asarray(t.membership(arr), dtype=float)
        got2 = np.asarray(t.membership(arr.reshape(-1, 1)), dtype=float)
        for i, x in enumerate(pts):
            cases += 1
            key = (k, i)
            if key not in seen:
                seen.add(key); distinct += 1
            exp = h * _lerp(xs.tolist(), ys.tolist(), float(x))
            one = np.float64(t.membership(float(x)))
            if not (FA.same(exp, got[i], rel=1e-9, abs_=1e-12) and FA.same(one, got[i]) and FA.same(got2[i, 0], got[i])):
                return {"failed": True, "expected": exp, "observed": [float(got[i]), float(one)], "call": f"Discrete(xs={xs.tolist()}, ys={ys.tolist()}, h={h}).membership({x!r})", "cases": cases, "distinct": distinct}
            if not (np.isnan(x) == np.isnan(got[i])) or not (np.isnan(x) or -1e-12 <= got[i] <= h + 1e-12):
                return {"failed": True, "expected": "NaN iff x NaN; in [0,h]", "observed": float(got[i]), "call": f"x={x!r}", "cases": cases, "distinct": distinct}
    return {"failed": False, "cases": cases, "distinct": distinct, "sample": f"last table: {k} points, height {h}"}
