"""Native replays for C20 (settings contexts) on the real package."""


class _Boom(BaseException):
    pass


def replay_context(fl, FA, vals=None, seed=0, budget=300, **kw):
    import logging, random
    rng = random.Random(seed)
    S = fl.settings
    names = ["float_type", "decimals", "atol", "rtol", "alias", "logger", "factory_manager"]

    def snapshot():
        return {"float_type": S.float_type, "decimals": S.decimals, "atol": S.atol, "rtol": S.rtol, "alias": S.alias, "logger": S.logger, "factory_manager": S._factory_manager}

    def fresh(n):
        import numpy as np
        return {"float_type": rng.choice([np.float32, np.float64, np.float16]), "decimals": rng.randrange(0, 12), "atol": rng.choice([1e-9, 0.1, 0.5, 0.001, -0.5]),
                "rtol": rng.choice([0.0, 1e-6, 0.25, -1e-3, float("nan")]), "alias": rng.choice(["", "*", "fl", "fuzzy"]), "logger": logging.getLogger(f"x{rng.randrange(99)}"),
                "factory_manager": fl.FactoryManager()}[n]

    def setdirect(n, v):
        setattr(S, n, v)

    base = snapshot()
    cases, seen = 0, set()
    try:
        for it in range(budget):
            depth = rng.randrange(1, 5)
            levels = []
            for _ in range(depth):
                sub = [n for n in names if rng.random() < 0.4]
                kws = {}
                for n in sub:
                    kws[n] = snapshot()[n] if rng.random() < 0.2 else fresh(n)      # sometimes the value the setting already has
                    if kws[n] is None:
                        del kws[n]                                                   # None means "not named"
                levels.append(kws)
            boom_at = rng.choice([None] + list(range(depth)))
            exc = rng.choice([ValueError, KeyboardInterrupt, _Boom, SystemExit])
            problems = []
            # in a third of the histories every context object is created up front (and a setting assigned directly in between) and entered later:
            # "the previous value" is the value when the context is ENTERED
            prebuilt = [S.context(**kws) for kws in levels] if it % 3 == 2 else None
            if prebuilt is not None:
                for n in names:
                    if rng.random() < 0.3 and n != "factory_manager":
                        setdirect(n, fresh(n))

            def check_level(level):
                entry = snapshot()
                kws = levels[level]
                mid = dict(entry)           # if entering the context itself raises, the with-body never ran: unnamed settings are as at entry
                raised = None
                try:
                    with (prebuilt[level] if prebuilt is not None else S.context(**kws)):
                        try:
                            now = snapshot()
                            for n in names:
                                want = kws[n] if n in kws else entry[n]
                                if now[n] is not want and now[n] != want:
                                    problems.append(f"inside level {level}: {n} is {now[n]!r}, expected {want!r}")
                            for n in names:
                                if rng.random() < 0.25 and n != "factory_manager":
                                    setdirect(n, fresh(n))
                            if level + 1 < depth:
                                check_level(level + 1)
                            if boom_at == level:
                                raise exc("boom")
                        finally:
                            mid.update(snapshot())          # the state in which the with-body is left
                except BaseException as ex_:  # noqa
                    raised = ex_
                after = snapshot()
                for n in names:
                    want = entry[n] if n in kws else mid[n]
                    if after[n] is not want and after[n] != want:
                        problems.append(f"after leaving level {level} ({'by ' + type(raised).__name__ if raised else 'normally'}): {n} is {after[n]!r}, expected {want!r} "
                                        f"({'named: value at entry' if n in kws else 'not named: untouched'})")
                if raised is not None:
                    raise raised

            try:
                check_level(0)
            except BaseException as ex_:  # noqa
                if not isinstance(ex_, (ValueError, KeyboardInterrupt, _Boom, SystemExit)):
                    raise
            cases += 1
            seen.add((depth, boom_at, exc.__name__, tuple(tuple(sorted(l)) for l in levels)))
            if problems:
                return {"failed": True, "expected": "every named setting restored, unnamed ones untouched", "observed": problems[:3], "cases": cases,
                        "call": ("contexts created up front, entered later: " if prebuilt is not None else "") + f"nesting of contexts over {[sorted(l) for l in levels]}, exception {exc.__name__ if boom_at is not None else None} raised at level {boom_at}"}
            for n, v in base.items():
                setdirect(n if n != "factory_manager" else "_factory_manager", v)
    finally:
        for n, v in base.items():
            setattr(S, n if n != "factory_manager" else "_factory_manager", v)
    return {"failed": False, "cases": cases, "distinct": len(seen)}


def replay_helpers(fl, FA, vals=None, **kw):
    """formatting and comparison helpers observe the temporary values only inside the context (also for objects created before)"""
    S = fl.settings
    out = []
    exp = fl.FldExporter()
    before = (fl.Op.str(0.123456789), bool(fl.Op.is_close(1.0, 1.05)))
    with S.context(decimals=6, atol=0.1):
        inside = (fl.Op.str(0.123456789), bool(fl.Op.is_close(1.0, 1.05)))
        e = fl.Engine("e", input_variables=[fl.InputVariable("a", minimum=0, maximum=1, terms=[fl.Ramp("t", 0, 1)])],
                      output_variables=[fl.OutputVariable("o", minimum=0, maximum=1, defuzzifier=fl.WeightedAverage(), terms=[fl.Constant("c", 0.5)])],
                      rule_blocks=[fl.RuleBlock(activation=fl.General(), rules=[fl.Rule.create("if a is t then o is c")])])
        txt = exp.to_string_from_scope(e, values=3)
        line = txt.strip().splitlines()[1].split()[0]
        if len(line.split(".")[1]) != 6:
            out.append(f"FldExporter created before the context printed {line!r} inside context(decimals=6)")
    after = (fl.Op.str(0.123456789), bool(fl.Op.is_close(1.0, 1.05)))
    # a tighter tolerance and two different aliases, each observed inside its own context only (a helper that freezes its first answer,
    # or binds a setting at definition time, shows here)
    rep = getattr(fl.library, "representation", None)
    seen = []
    for alias in ("fl", "", "zz"):
        with S.context(alias=alias, atol=1e-6, rtol=0.0):
            stmt = rep.import_statement() if rep is not None and hasattr(rep, "import_statement") else None
            seen.append((alias, stmt, bool(fl.Op.is_close(1.0, 1.0005))))
    for alias, stmt, close in seen:
        if alias == "zz" and stmt is not None and " as zz" not in stmt:
            out.append(f"import_statement() inside context(alias='zz') is {stmt!r}")
        if alias == "fl" and stmt is not None and " as zz" in stmt:
            out.append(f"import_statement() inside context(alias='fl') is {stmt!r}")
        if close:
            out.append(f"Op.is_close(1.0, 1.0005) is True inside context(atol=1e-6, rtol=0) [alias {alias!r}]")
    # the temporary float type does not switch the formatting of library floats off
    import numpy as _np
    for ft in (_np.float32, _np.float16, _np.float64):
        with S.context(float_type=ft, decimals=2):
            txt = fl.Op.str(fl.to_float("0.3333333"))
            if txt != "0.33":
                out.append(f"inside context(float_type={ft.__name__}, decimals=2): Op.str(to_float('0.3333333')) = {txt!r} (expected '0.33')")
    # the temporary tolerances keep their roles: atol absolute, rtol relative
    with S.context(atol=0.5, rtol=0.0):
        if not bool(fl.Op.is_close(0.0, 0.4)) or bool(fl.Op.is_close(100.0, 110.0)):
            out.append(f"inside context(atol=0.5, rtol=0): is_close(0.0, 0.4) = {bool(fl.Op.is_close(0.0, 0.4))} (expected True), is_close(100.0, 110.0) = {bool(fl.Op.is_close(100.0, 110.0))} (expected False)")
    with S.context(atol=0.0, rtol=0.5):
        if not bool(fl.Op.is_close(110.0, 100.0)) or bool(fl.Op.is_close(0.4, 0.0)):
            out.append(f"inside context(atol=0, rtol=0.5): is_close(110.0, 100.0) = {bool(fl.Op.is_close(110.0, 100.0))} (expected True), is_close(0.4, 0.0) = {bool(fl.Op.is_close(0.4, 0.0))} (expected False)")
    if rep is not None and hasattr(rep, "import_statement"):
        with S.context(alias="fl"):
            again = rep.import_statement()
        if " as zz" in again:
            out.append(f"import_statement() inside a later context(alias='fl') is {again!r}")
    if inside != ("0.123457", True) or before != after or before != ("0.123", False):
        out.append(f"Op.str/Op.is_close before {before}, inside {inside}, after {after}")
    return {"failed": bool(out), "expected": "temporary values observed only inside the context", "observed": out}


def replay_is_close(fl, FA, vals=None, **kw):
    """Op.is_close against |a - b| <= atol + rtol * |b| at the current (default) settings: at the given operands and on a grid around the tolerance"""
    import numpy as np
    S = fl.settings
    atol, rtol = float(S.atol), float(S.rtol)
    pts = []
    if vals and "a" in vals and "b" in vals:
        pts.append((float(vals["a"]), float(vals["b"])))
    for b in (1.0, 0.0, -2.5, 100.0, 1e-3):
        for k in (0.0, 0.5, 0.999, 1.0, 1.001, 1.5, 2.0, 2.001, 3.0):
            for sgn in (1, -1):
                pts.append((b + sgn * k * (atol + rtol * abs(b)), b))
    pts += [(float("nan"), float("nan")), (float("nan"), 1.0), (float("inf"), float("inf")), (float("inf"), float("-inf")), (1.0, float("inf"))]
    for a, b in pts:
        got = bool(fl.Op.is_close(a, b))
        if a != a or b != b:
            want = (a != a and b != b)
        elif np.isinf(a) or np.isinf(b):
            want = a == b
        else:
            d, lim = abs(a - b), atol + rtol * abs(b)
            if abs(d - lim) <= 1e-12 * max(1.0, lim):
                continue          # on the boundary up to rounding: either answer
            want = d <= lim
        if got != want:
            return {"failed": True, "expected": want, "observed": got, "call": f"Op.is_close({a!r}, {b!r}) with settings.atol={atol}, settings.rtol={rtol}"}
    return {"failed": False, "cases": len(pts)}
