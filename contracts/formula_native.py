"""Native bounded stand-in and replay search for C17 (Function formulas follow the documented precedence/associativity).

Runs the REAL package: formulas are loaded with `fl.Function(...)`/`fl.Function.create` and evaluated with
`term.membership(x)` / `term.evaluate(variables)`; the tree is printed back with `term.root.postfix()`.

ORACLE (written from the statement of C17 and the docstrings, never from factory.py / the parser):
 * operator table, tightest first: `! ~` (prefix, right) ; `^ **` (binary, right) with the prefix `.- .+` on the same
   level (right) ; `* / %` (left) ; `+ -` (left) ; `and` (left) ; `or` (left).  It is used by (i) a printer that puts the
   minimal parentheses a tree needs and (ii) an independent precedence-climbing parser (`_ref_parse`) with which every text
   the harness produces is cross-checked (well-formed texts must give the tree back, ill-formed ones must be refused): a
   disagreement of the two is a harness fault (AssertionError), never reported as a failure of the library.
 * meanings: computed per element with `math` / Python floats: `!` not, `~` `.-` negation, `.+` identity, `^` `**` `pow`
   float power, `%` "Modulo" = floored remainder (sign of the divisor, Python's float `%`; the docstrings only say
   "Modulo"), `fmod` "Floating-point remainder" = C fmod (sign of the dividend), `gt ge eq neq le lt` 0/1 indicators
   usable in arithmetic, `round` half-to-even (only exercised away from ties unless the argument is exact), `pi`, and the
   usual elementary functions.  Truth values: nonzero = true.  Arrays: elementwise = per-element scalar results.
 * the registered names are read from `fl.settings.factory_manager.function` ONLY to check that all of them are covered
   (`undocumented-element`) and (replay_table) to compare the registered precedence/associativity/arity with the table.
Operands are kept in tame domains (`_Dom` rejects a valuation: zero divisors, negative bases with inexact exponents,
arguments next to a discontinuity of floor/ceil/round/%/relational functions unless exact, |values| > 1e6); the
tolerance is 1e-9 relative plus 1e-12 of the largest intermediate magnitude.
Surface syntax (from Function.format_infix / infix_to_postfix docstrings and tests): every operator except `and`/`or`
is self-delimiting (spaces optional), unary minus/plus are spelled `.-` `.+` (a bare `-x` is documented as unsupported),
calls are `f(a, b)`, the constant is `pi` or `pi()`, literals are non-negative decimal numbers.
Postfix: the package has no public postfix reader; the postfix->tree half of `Function.parse` is run on `root.postfix()`
through a subclass whose `infix_to_postfix` is the identity (no global touched); the harness' own postfix reader checks the text.
"""
import math
import random
import re

UN = {"!": 6, "~": 6, ".-": 5, ".+": 5}
BIN = {"^": (5, "R"), "**": (5, "R"), "*": (4, "L"), "/": (4, "L"), "%": (4, "L"), "+": (3, "L"), "-": (3, "L"),
       "and": (2, "L"), "or": (1, "L")}
LOGICAL = ("!", "and", "or")
REL = {"gt": lambda a, b: a > b, "ge": lambda a, b: a >= b, "eq": lambda a, b: a == b, "neq": lambda a, b: a != b,
       "le": lambda a, b: a <= b, "lt": lambda a, b: a < b}
ENG_IN, ENG_OUT, OWN = ("a", "b"), ("o",), ("k", "m")
NAMES = ("x",) + ENG_IN + ENG_OUT + OWN
POOL = [2.0, 3.0, 0.5, 1.5, 4.0, 0.25, 5.0, -2.0, -1.5, 1.0, 0.0, 7.0, -3.0, 2.5, 0.75, -0.5]
LITS = [("2", 2.0), ("3", 3.0), ("0.5", 0.5), ("1.5", 1.5), ("4.0", 4.0), ("0.25", 0.25), ("1", 1.0), ("0", 0.0),
        ("10", 10.0), ("2.50", 2.5), ("0.125", 0.125), ("7", 7.0), ("1.000", 1.0), ("6", 6.0)]
REJECTIONS = ("SyntaxError", "ValueError")
TAME = {"acos", "asin", "atanh", "acosh", "log", "log10", "sqrt", "exp", "sinh", "cosh", "tan", "log1p"}


class _Dom(Exception): pass     # noqa: the valuation leaves the tame domain (not a failure: another valuation is tried)
class _Ill(Exception): pass     # noqa: the reference parser refuses the text
class _Fail(Exception): pass    # noqa: carries the result dict of the first failing case

def _try(fn, *args):
    """(result, None) or (None, 'Type: message')"""
    try:
        return fn(*args), None
    except Exception as ex:  # noqa
        return None, "%s: %s" % (type(ex).__name__, ex)

# ------------------------------------------------------------------ reference meaning: f(values..., exact flags...) -> (value, exact)
def _need(c):
    if not c:
        raise _Dom

def _u1(fn, dom=None):
    return lambda a, ea: (_need(dom is None or dom(a)), (fn(a), False))[1]

def _step(fn, half):            # floor / ceil / round: piecewise constant, only exact arguments next to a jump
    def f(a, ea):
        s = a + (0.5 if half else 0.0)
        _need(ea or abs(s - round(s)) > 1e-6)
        return float(fn(a)), ea
    return f

def _pow(a, b, ea, eb):
    _need(1e-3 <= abs(a) <= 1e3 and abs(b) <= 8 and (a > 0 or (eb and float(b).is_integer())))
    try:
        return math.pow(a, b), False
    except (OverflowError, ValueError):
        raise _Dom

def _rem(fn):
    def f(a, b, ea, eb):
        _need(abs(b) >= 1e-3)
        q = a / b
        _need(abs(q) <= 1e6 and ((ea and eb) or abs(q - round(q)) > 1e-6))
        return fn(a, b), False
    return f

def _rel(name):                 # exact operands, or operands well apart
    return lambda a, b, ea, eb: (_need((ea and eb) or abs(a - b) > 1e-6 * max(1.0, abs(a), abs(b))), ((1.0 if REL[name](a, b) else 0.0), True))[1]

def _atan2(a, b, ea, eb):
    _need((abs(a) > 1e-6 or (ea and (b > 1e-6 or eb))) and not (a == 0 and b == 0))
    return math.atan2(a, b), False

def _dy(fn):                    # + - * stay "exact" on small dyadic values
    def f(a, b, ea, eb):
        r = fn(a, b)
        return r, bool(ea and eb and abs(r) < 1e6 and float(r * 1024).is_integer())
    return f

BINF = {"+": _dy(lambda a, b: a + b), "-": _dy(lambda a, b: a - b), "*": _dy(lambda a, b: a * b),
        "/": lambda a, b, ea, eb: (_need(abs(b) >= 1e-3), (a / b, False))[1],
        "%": _rem(lambda a, b: a % b), "^": _pow, "**": _pow}
FUNCS = {
    "pi": (0, lambda: (math.pi, True)),
    "acos": (1, _u1(math.acos, lambda a: abs(a) <= 0.99)), "asin": (1, _u1(math.asin, lambda a: abs(a) <= 0.99)),
    "atan": (1, _u1(math.atan)), "ceil": (1, _step(math.ceil, False)), "floor": (1, _step(math.floor, False)),
    "round": (1, _step(round, True)), "cos": (1, _u1(math.cos)), "sin": (1, _u1(math.sin)),
    "tan": (1, _u1(math.tan, lambda a: abs(math.cos(a)) > 0.05)), "cosh": (1, _u1(math.cosh, lambda a: abs(a) <= 10)),
    "sinh": (1, _u1(math.sinh, lambda a: abs(a) <= 10)), "tanh": (1, _u1(math.tanh)),
    "exp": (1, _u1(math.exp, lambda a: abs(a) <= 10)), "abs": (1, lambda a, ea: (abs(a), ea)), "fabs": (1, lambda a, ea: (abs(a), ea)),
    "log": (1, _u1(math.log, lambda a: a >= 1e-3)), "log10": (1, _u1(math.log10, lambda a: a >= 1e-3)),
    "log1p": (1, _u1(math.log1p, lambda a: a >= -0.9)), "sqrt": (1, _u1(math.sqrt, lambda a: a >= 1e-6)),
    "acosh": (1, _u1(math.acosh, lambda a: a >= 1.01)), "asinh": (1, _u1(math.asinh)),
    "atanh": (1, _u1(math.atanh, lambda a: abs(a) <= 0.99)),
    "pow": (2, _pow), "atan2": (2, _atan2), "fmod": (2, _rem(math.fmod)),
    "min": (2, lambda a, b, ea, eb: (a, ea) if a <= b else (b, eb)), "max": (2, lambda a, b, ea, eb: (a, ea) if a >= b else (b, eb)),
}
FUNCS.update({_n: (2, _rel(_n)) for _n in REL})
ARITY = {n: a for n, (a, _) in FUNCS.items()}


def _truth(v, ex):              # nonzero = true; an inexact value next to zero is not used as a truth value
    return v if isinstance(v, bool) else (_need(ex or abs(v) > 1e-6), v != 0.0)[1]

def ev(t, env, st):
    """reference value of a tree: (value, exact); a float, or a bool for results of ! and or.  Trees are tuples:
    ('n', value, spelling) | ('v', name) | ('u', op, child) | ('b', op, left, right) | ('c', function, (args...)[, spell `pi()`])"""
    k = t[0]
    if k in "nv":
        return (t[1] if k == "n" else float(env[t[1]])), True
    if k == "u":
        v, ex = ev(t[2], env, st)
        if t[1] == "!":
            return (not _truth(v, ex)), True
        r = (v if t[1] == ".+" else -v), ex
    elif k == "b":
        a, ea = ev(t[2], env, st)
        b, eb = ev(t[3], env, st)
        if t[1] in ("and", "or"):
            ta, tb = _truth(a, ea), _truth(b, eb)
            return ((ta and tb) if t[1] == "and" else (ta or tb)), True
        r = BINF[t[1]](a, b, ea, eb)
    else:
        args = [ev(c, env, st) for c in t[2]]
        r = FUNCS[t[1]][1](*([a[0] for a in args] + [a[1] for a in args]))
    _need(math.isfinite(r[0]) and abs(r[0]) <= 1e6)
    st[0] = max(st[0], abs(r[0]))
    return r

def expected(tree, env):
    st = [0.0]
    return ev(tree, env, st)[0], st[0]      # (reference value, largest intermediate magnitude)

def value(tree, env):
    """the reference value, or None when the valuation leaves the tame domain"""
    try:
        return expected(tree, env)[0]
    except _Dom:
        return None

def kids(t):
    return () if t[0] in "nv" else ((t[2],) if t[0] == "u" else ((t[2], t[3]) if t[0] == "b" else tuple(t[2])))
def is_bool(t): return t[0] in "ub" and t[1] in LOGICAL                                                       # noqa
def welltyped(t): return all(welltyped(c) for c in kids(t)) and (is_bool(t) or not any(is_bool(c) for c in kids(t)))  # noqa
def norm(t): return rebuild(t, lambda l: ("n", float(l[1])) if l[0] == "n" else l)                            # noqa
def shape(t): return "." if t[0] in "nv" else (t[1],) + tuple(shape(c) for c in kids(t))                      # noqa
def height(t): return 1 + max([height(c) for c in kids(t)] or [0])                                            # noqa
def level(t): return UN[t[1]] if t[0] == "u" else (BIN[t[1]][0] if t[0] == "b" else 9)                        # noqa
def V(n): return ("v", n)                                                                                     # noqa
def _mk(op, *ks): return ("u", op, ks[0]) if op in UN else ("b", op, ks[0], ks[1])                            # noqa
def _word(ch): return ch.isalnum() or ch == "_"                                                               # noqa

def rebuild(t, leaf):
    if t[0] in "nv":
        return leaf(t)
    ks = tuple(rebuild(c, leaf) for c in kids(t))
    return (t[0], t[1]) + (ks if t[0] != "c" else (ks,))

def used(t, vs, es):
    (vs if t[0] == "v" else es).update([t[1]] if t[0] != "n" else [])
    for c in kids(t):
        used(c, vs, es)
    return vs, es

# ------------------------------------------------------------------ printer (tokens) and spacing
def toks(t, style, rng):
    """'min': the parentheses the table requires; 'full': every operator application parenthesised; 'red': minimal plus random
    redundant ones"""
    def sub(c, need):
        s = toks(c, style, rng)
        if need or (style == "full" and c[0] in "ub"):
            s = ["("] + s + [")"]
        while style == "red" and rng.random() < 0.25:
            s = ["("] + s + [")"]
        return s
    k = t[0]
    if k in "nv":
        return [t[2] if k == "n" else t[1]]
    if k == "c":
        if not t[2]:
            return [t[1], "(", ")"] if (len(t) > 3 and t[3]) else [t[1]]
        out = [t[1], "("]
        for i, c in enumerate(t[2]):
            out += ([","] if i else []) + sub(c, False)
        return out + [")"]
    if k == "u":
        return [t[1]] + sub(t[2], level(t[2]) < level(t))
    lv, asc = BIN[t[1]]
    l, r = level(t[2]), level(t[3])
    return sub(t[2], l < lv or (l == lv and asc == "R")) + [t[1]] + sub(t[3], r < lv or (r == lv and asc == "L"))

def join(tk, mode, rng):
    """'single' one space; 'compact' no space except between two words; 'random' 0-3 blanks/tabs anywhere between tokens"""
    if mode == "single":
        return " ".join(tk)
    out = []
    for i, t in enumerate(tk):
        need = i > 0 and _word(tk[i - 1][-1]) and _word(t[0])
        sp = "" if mode == "compact" else rng.choice(["", "", " ", "  ", " \t", "   "])
        out.append(((sp or " ") if need else (sp if i else "")) + t)
    return "".join(out) if mode == "compact" else rng.choice(["", " ", "  "]) + "".join(out) + rng.choice(["", " ", "\t "])

# ------------------------------------------------------------------ reference parser (precedence climbing from the table)
_TOK = re.compile(r"\s*(\*\*|\.-|\.\+|[-+*/%^!~(),]|[A-Za-z_]\w*|\d+\.?\d*(?:[eE]\d+)?|\.\d+)")

def _ref_parse(text):
    tk, pos, text, p = [], 0, text.rstrip(), [0]
    while pos < len(text):
        m = _TOK.match(text, pos)
        if not m:
            raise _Ill("token at %d" % pos)
        tk.append(m.group(1))
        pos = m.end()
    peek = lambda: tk[p[0]] if p[0] < len(tk) else None  # noqa

    def eat(x=None):
        t = peek()
        if t is None or (x is not None and t != x):
            raise _Ill("expected %r, found %r" % (x, t))
        p[0] += 1
        return t

    def atom():
        t = eat()
        if t == "(":
            e = expr(0)
            eat(")")
            return e
        if t[0].isdigit() or (t[0] == "." and len(t) > 1 and t[1].isdigit()):
            return ("n", float(t))
        if not _word(t[0]) or t in BIN:
            raise _Ill("operand expected, found %r" % t)
        if t not in ARITY:
            return ("v", t)
        args = []
        if ARITY[t] > 0 or peek() == "(":
            eat("(")
            while ARITY[t] > 0 and (not args or peek() == ","):
                args.append(expr(0) if not args or eat(",") else None)
            eat(")")
        if len(args) != ARITY[t]:
            raise _Ill("arity of %s" % t)
        return ("c", t, tuple(args))

    def expr(minlv):
        t = peek()
        if t in UN:
            eat()
            left = ("u", t, expr(UN[t]))
        else:
            left = atom()
        while peek() in BIN and BIN[peek()][0] >= minlv:
            lv, asc = BIN[peek()]
            left = ("b", eat(), left, expr(lv + 1 if asc == "L" else lv))
        return left

    e = expr(0)
    if peek() is not None:
        raise _Ill("trailing %r" % peek())
    return e

def _refuses(text): return (_try(_ref_parse, text)[1] or "").startswith("_Ill:")   # noqa

def _from_postfix(text):
    st = []
    for t in text.split():
        if t in UN:
            st.append(("u", t, st.pop()))
        elif t in BIN:
            r = st.pop()
            st.append(("b", t, st.pop(), r))
        elif t in ARITY:
            st.append(("c", t, tuple([st.pop() for _ in range(ARITY[t])][::-1])))
        else:
            st.append(("v", t) if _try(float, t)[1] else ("n", float(t)))
    if len(st) != 1:
        raise IndexError("postfix leaves %d trees" % len(st))
    return st[0]

# ------------------------------------------------------------------ ill-formed variants (token level)
def _match(tk, i):
    d = 0
    for j in range(i, len(tk)):
        d += (tk[j] == "(") - (tk[j] == ")")
        if d == 0:
            return j

def illformed(tk, rng):
    """(kind, tokens) variants of a well-formed token list; the kinds named in the quantifier of C17"""
    opnd = [i for i, t in enumerate(tk) if t not in UN and t not in BIN and t not in "(),"
            and (t not in ARITY or (ARITY[t] == 0 and (i + 1 == len(tk) or tk[i + 1] != "(")))]
    bins = [i for i, t in enumerate(tk) if t in BIN]
    calls = [i for i, t in enumerate(tk) if t in ARITY and ARITY[t] > 0]
    par = [i for i, t in enumerate(tk) if t in "()"]
    anybin, pick = rng.choice(sorted(BIN)), (lambda xs: [rng.choice(xs)] if xs else [])
    out = [("missing-operand", tk[:i] + tk[i + 1:]) for i in pick(opnd)] + [("missing-operator", tk[:i] + tk[i + 1:]) for i in pick(bins)]
    out += [("duplicate-operator", tk[:i] + [tk[i]] + tk[i:]) for i in pick(bins)] + [("unbalanced", tk[:i] + tk[i + 1:]) for i in pick(par)]
    out += [("trailing-operator", tk + [anybin]), ("leading-operator", [anybin] + tk)]
    out.append(("unbalanced", rng.choice([["("] + tk, tk + [")"], tk + ["("], [")"] + tk])))
    if calls:
        i = rng.choice(calls)
        j = _match(tk, i + 1)
        commas = [c for c in range(i + 2, j) if tk[c] == "," and sum((x == "(") - (x == ")") for x in tk[i + 2:c]) == 0]
        out.append(("wrong-arity", tk[:j] + [",", "x"] + tk[j:]))
        if commas:
            out += [("wrong-arity", tk[:commas[0]] + tk[j:]), ("empty-argument", tk[:commas[0] + 1] + tk[j:]),
                    ("empty-argument", tk[:i + 2] + tk[commas[0]:])]
        else:
            out.append(("empty-argument", tk[:i + 2] + tk[j:]))
    else:
        f = rng.choice(sorted(ARITY))
        extra = 2 if ARITY[f] == 1 else rng.choice([k for k in (ARITY[f] - 1, ARITY[f] + 1) if k >= 1])
        out += [("wrong-arity", [f, "("] + tk + [",", "x"] * (extra - 1) + [")"]), ("empty-argument", ["max", "("] + tk + [",", ")"])]
    return out

# ------------------------------------------------------------------ the run context
class _Run:
    def __init__(self, fl, seed, arrays, skip, only):
        import numpy as np
        self.fl, self.np, self.rng = fl, np, random.Random(seed)
        self.arrays, self.skip, self.only = arrays, set(skip or ()), only
        self.cases, self.distinct, self.skipped, self.ignored = 0, set(), {}, {}
        self.bad, self.rejections, self.n_good = {}, {}, 0
        self.reg = dict(fl.settings.factory_manager.function.objects)
        self.engine = fl.Engine("e", input_variables=[fl.InputVariable(n) for n in ENG_IN],
                                output_variables=[fl.OutputVariable(n) for n in ENG_OUT])
        self.PF = type("PostfixFunction", (fl.Function,), {"infix_to_postfix": classmethod(lambda cls, formula: formula)})

    def fail(self, cls, expected, observed, call, elems=()):
        """a failing case: attributed to an element already known to be defective if the tree contains one; skipped classes are
        counted, anything else ends the run"""
        cls = next((self.bad[n] for n in sorted(elems) if n in self.bad), cls)
        if cls in self.skip:
            self.skipped[cls] = self.skipped.get(cls, 0) + 1
        elif self.only and cls != self.only:
            self.ignored[cls] = self.ignored.get(cls, 0) + 1
        else:
            raise _Fail({"failed": True, "class": cls, "expected": str(expected)[:590], "observed": str(observed)[:590],
                         "call": str(call)[:598], "cases": self.cases})

    def lit(self, v):
        return repr(float(v)) if self.np.ndim(v) == 0 else "np.array(%s)" % [float(z) for z in v]

    def snippet(self, text, env, vs, how=None):
        s = ["import numpy as np, fuzzylite as fl"]
        eng = [n for n in ENG_IN + ENG_OUT if n in vs]
        own = ", ".join("%r: %s" % (n, self.lit(env[n])) for n in OWN if n in vs)
        if eng:
            s.append("e = fl.Engine('e', input_variables=[%s], output_variables=[%s])" % (
                ", ".join("fl.InputVariable(%r)" % n for n in ENG_IN if n in vs), ", ".join("fl.OutputVariable(%r)" % n for n in ENG_OUT if n in vs)))
            s += ["e.variable(%r).value = %s" % (n, self.lit(env[n])) for n in eng]
        s.append("t = fl.Function('f', %r%s%s, load=True)" % (text, ", engine=e" if eng else "", (", variables={%s}" % own) if own else ""))
        s.append("print(%s)" % (how or "t.membership(%s)" % self.lit(env["x"])))
        return "; ".join(s)

    def observe(self, term, env, how):
        for n in ENG_IN + ENG_OUT:
            self.engine.variable(n).value = env[n]
        term.variables = {n: env[n] for n in OWN}
        return term.membership(env["x"]) if how == "membership" else term.evaluate(dict(env))

    def close(self, obs, exp, m):
        return (bool(obs) == exp) if isinstance(exp, bool) else abs(float(obs) - exp) <= 1e-9 * abs(exp) + 1e-12 * max(m, 1.0)

    def find_envs(self, tree, alt=None, want=5, tries=400, fixed=None):
        """valuations on which `tree` stays in the tame domain, first those on which it differs from the other reading `alt`"""
        good, plain, seen = [], [], set()
        for it in range(tries):
            env = dict({n: self.rng.choice(POOL) for n in NAMES}, **(fixed or {}))
            key = tuple(env[n] for n in NAMES)
            if key in seen:
                continue
            seen.add(key)
            v, w = value(tree, env), (None if alt is None else value(alt, env))
            if v is None:
                continue
            disc = alt is None or (w is not None and ((w != v) if isinstance(v, bool) or isinstance(w, bool) else abs(w - v) > 1e-3 * max(1.0, abs(v), abs(w))))
            (good if disc else plain).append(env)
            if len(good) >= want or (it > 150 and len(good) + len(plain) >= want):
                break
        self.n_good = len(good)
        return (good + plain)[:want]

    def check_tree(self, tree, envs, cls, acls=None, styles=("min", "full", "red"), do_ill=True, postfix=True):
        """one well-formed tree: every parenthesis style x spacing variants, loaded and evaluated by the real term"""
        rng = self.rng
        vs, es = used(tree, set(), set())
        exp = [expected(tree, e) for e in envs]
        self.distinct.add(shape(tree))
        first = True
        for style in styles:
            tk = toks(tree, style, rng)
            for mode in (("single", rng.choice(["compact", "random"])) if first else (rng.choice(["single", "compact", "random"]),)):
                text = join(tk, mode, rng)
                back = _ref_parse(text)                         # harness self-check (printer vs reference parser)
                assert norm(back) == norm(tree), ("printer/reference parser disagree", text, back, tree)
                self.cases += 1
                prob = self.run_text(text, tree, envs, exp, vs, cls, acls, postfix and first)
                if prob and mode != "single" and not self.run_text(" ".join(tk), tree, envs, exp, vs, cls, acls, False):
                    prob = ("spacing:" + mode,) + prob[1:]      # the same tokens one space apart are fine
                if prob:
                    return self.fail(prob[0], prob[1], prob[2], prob[3], es)
                first = False
        if do_ill:
            self.check_ill(toks(tree, rng.choice(["min", "full"]), rng))

    def run_text(self, text, tree, envs, exp, vs, cls, acls, postfix):
        """returns None, or (class, expected, observed, call)"""
        np, fl = self.np, self.fl
        acls = acls or "not-elementwise:" + cls.split(":", 1)[-1]
        if self.rng.random() < 0.5:
            term, err = _try(lambda: fl.Function("f", text, engine=self.engine, variables={n: envs[0][n] for n in OWN}, load=True))
        else:
            term, err = _try(fl.Function.create, "f", text, self.engine)
        if err:
            return ("crash:%s@load" % err.split(":")[0], "formula loads (well-formed: reference tree %s)" % (norm(tree),), err,
                    "import fuzzylite as fl; fl.Function.create('f', %r)" % text)
        for i, env in enumerate(envs[:3]):                      # the SAME loaded term under changing engine/own values
            want, m = exp[i]
            for how in ("membership", "evaluate"):
                obs, err = _try(self.observe, term, env, how)
                if err:
                    return (cls if cls.startswith(("value:function:", "indicator-")) else "crash:%s@%s" % (err.split(":")[0], how), want, err, self.snippet(text, env, vs))
                if np.ndim(obs) != 0 or not self.close(obs, want, m):
                    return (cls, want, repr(obs), self.snippet(text, env, vs))
        if postfix:
            env, (want, m) = envs[0], exp[0]
            call = self.snippet(text, env, vs, "t.root.postfix()")
            pf, err = _try(lambda: term.root.postfix())
            back = None if err else _try(lambda: norm(_from_postfix(pf)))[0]
            if back != norm(tree):
                return ("postfix:text", "postfix print of %s" % (norm(tree),), err or pf, call)
            obs, err = _try(lambda: self.PF.parse(pf).evaluate(dict(env)))
            if err or np.ndim(obs) != 0 or not self.close(obs, want, m):
                return ("postfix:reparse", want, err or obs, call + "  # then the postfix->tree half of Function.parse on that text, evaluated")
        if self.arrays and envs:
            es4 = [envs[i % len(envs)] for i in range(max(4, len(envs)))][:5]
            sets = [({n: np.array([e[n] for e in es4]) for n in NAMES}, es4, set(NAMES))]
            if "x" in vs and self.rng.random() < 0.5:           # only x is an array
                xs = [xv for xv in POOL if value(tree, dict(envs[0], x=xv)) is not None]
                xs = [xs[i % len(xs)] for i in range(max(4, min(5, len(xs))))]
                sets.append((dict(envs[0], x=np.array(xs)), [dict(envs[0], x=xv) for xv in xs], {"x"}))
            for aenv, elems, arrs in sets:
                wants = [expected(tree, e) for e in elems]
                isarr = bool(vs & arrs)
                for how in ("membership", "evaluate"):
                    obs, err = _try(self.observe, term, aenv, how)
                    ok = not err and ((np.shape(obs) == (len(elems),)) if isarr else (np.ndim(obs) == 0))
                    if not (ok and all(self.close(o, w, m) for o, (w, m) in zip(np.atleast_1d(obs), wants if isarr else wants[:1]))):
                        return (acls, [w for w, _ in wants] if isarr else wants[0][0], err or repr(obs), self.snippet(text, aenv, vs))
        return None

    def check_ill(self, tk, limit=4, variants=None):
        vs = variants if variants is not None else illformed(tk, self.rng)
        for kind, v in (vs if variants is not None or len(vs) <= limit else self.rng.sample(vs, limit)):
            text = " ".join(v)
            assert _refuses(text), ("variant is well-formed for the reference parser", kind, text)
            self.cases += 1
            call = "import fuzzylite as fl; fl.Function.create('f', %r)" % text
            t, err = _try(self.fl.Function.create, "f", text, self.engine)
            if not err:
                self.fail("accepted-illformed:" + kind, "rejected when loaded: ill-formed (%s)" % kind, "loaded, postfix %r" % t.root.postfix(), call)
                continue
            name = err.split(":")[0]
            self.rejections[name] = self.rejections.get(name, 0) + 1
            if name not in REJECTIONS:
                self.fail("illformed-internal-error:" + name, "SyntaxError (or ValueError): ill-formed (%s)" % kind, err, call)

# ------------------------------------------------------------------ generators
def _leafs(rng, n, allow_lit=True):
    names = rng.sample(list(NAMES), 3)
    out = [V(names[i % 3]) for i in range(n)]
    if allow_lit and rng.random() < 0.5:
        s, v = rng.choice(LITS)
        out[rng.randrange(n)] = ("n", v, s)
    return out

def _delit(t):
    """the same tree with its literals replaced by a variable the tree does not use yet"""
    free = [n for n in NAMES if n not in used(t, set(), set())[0]]
    return rebuild(t, lambda l: V(free[0]) if l[0] == "n" else l)

def skeletons(rng):
    """ALL ordered pairs (outer, inner) of the 13 operators, inner in every operand position of outer:
    (tree, the other tree with the same token sequence or None, label)"""
    allops = list(UN) + list(BIN)
    for o in allops:
        for i in allops:
            p = _leafs(rng, 3)
            if o in BIN and i in BIN:
                forms = [(_mk(o, _mk(i, p[0], p[1]), p[2]), _mk(i, p[0], _mk(o, p[1], p[2]))),
                         (_mk(o, p[0], _mk(i, p[1], p[2])), _mk(i, _mk(o, p[0], p[1]), p[2]))]
            elif o in BIN:
                forms = [(_mk(o, _mk(i, p[0]), p[1]), _mk(i, _mk(o, p[0], p[1]))), (_mk(o, p[0], _mk(i, p[1])), None)]
            elif i in BIN:
                forms = [(_mk(o, _mk(i, p[0], p[1])), _mk(i, _mk(o, p[0]), p[1]))]
            else:
                forms = [(_mk(o, _mk(i, p[0])), None)]
            for t, alt in forms:
                if welltyped(t):
                    yield t, (alt if alt is not None and welltyped(alt) else None), "%s/%s" % (o, i)

def _shapes(leaves, ops):
    if len(leaves) == 1:
        yield leaves[0]
    for s in range(1, len(leaves)):
        for l in _shapes(leaves[:s], ops[:s - 1]):
            for r in _shapes(leaves[s:], ops[s:]):
                yield ("b", ops[s - 1], l, r)

def call_skeletons(rng):
    """every function with every operator: the call as an operand, an operator application as an argument"""
    k = 0
    for f in sorted(ARITY):
        n = ARITY[f]
        for op in list(UN) + list(BIN):
            p = _leafs(rng, 4)
            k += 1
            if n == 0:
                c = ("c", f, (), k % 2 == 0)
                forms = [_mk(op, c, p[0]), _mk(op, p[0], c)] if op in BIN else [_mk(op, c)]
            elif op in UN:
                forms = [_mk(op, ("c", f, tuple(p[:n]))), ("c", f, tuple([_mk(op, p[0])] + p[1:n]))]
            else:
                c = ("c", f, tuple(p[:n]))
                inner = [("c", f, tuple(p[j] if j != q else _mk(op, p[2], p[3]) for j in range(n))) for q in range(n)]
                forms = [[_mk(op, c, p[3]), _mk(op, p[3], c)][k % 2], inner[k % n]]
            for t in forms:
                if welltyped(t):
                    yield t, "%s/%s" % ((f, op) if t[0] == "c" else (op, f))
        if n == 2:                                   # several pending operators before and after the comma
            p = _leafs(rng, 4, False)
            o1, o2 = rng.choice(["+", "-"]), rng.choice(["*", "/", "^", "**"])
            yield ("c", f, (_mk(o1, p[0], _mk(o2, p[1], p[2])), p[3])), "%s/%s" % (f, o1)
            yield ("c", f, (p[3], _mk(o1, p[0], _mk(o2, p[1], _mk(".-", p[2]))))), "%s/%s" % (f, o1)

def gen(rng, d, want, names, funcs):
    """random well-typed tree of height <= d; want 'B' (truth-valued: only under ! and or, or at the top) or 'N'"""
    if want == "B" and d > 1:
        if rng.random() < 0.3:
            return ("u", "!", gen(rng, d - 1, rng.choice("BN"), names, funcs))
        return ("b", rng.choice(["and", "or"]), gen(rng, d - 1, rng.choice("BN"), names, funcs), gen(rng, d - 1, rng.choice("BN"), names, funcs))
    r = rng.random()
    if d <= 1 or r < 0.12:
        q, (s, v) = rng.random(), rng.choice(LITS)
        return V(rng.choice(names)) if q < 0.65 else (("n", v, s) if q < 0.93 else ("c", "pi", (), rng.random() < 0.4))
    if r < 0.27:
        return ("u", rng.choice(["~", ".-", ".+"]), gen(rng, d - 1, "N", names, funcs))
    if r < 0.70 or not funcs:
        op = rng.choice(["^", "**", "*", "/", "%", "+", "-", "*", "+", "-"])
        rd = 1 if (op in ("^", "**") and rng.random() < 0.7) else d - 1
        return ("b", op, gen(rng, d - 1, "N", names, funcs), gen(rng, rd, "N", names, funcs))
    f = rng.choice(funcs)
    ad = 1 if (f in TAME and rng.random() < 0.5) else d - 1
    return ("c", f, tuple(gen(rng, ad if j == 0 else d - 1, "N", names, funcs) for j in range(ARITY[f])))

# ------------------------------------------------------------------ phases
def _elements(R):
    """every registered element on its own over a grid (scalars, arrays, equal arguments); the relational indicators in sums"""
    reg = "import fuzzylite as fl; fl.settings.factory_manager.function.objects.get(%r)"
    for n in sorted(R.reg):
        if n not in UN and n not in BIN and n not in FUNCS:
            R.cases += 1
            R.fail("undocumented-element:" + n, "one of the 13 operators / 34 documented functions", "registered element %r (%s)" % (n, R.reg[n].description), reg % n)
    x, k, a, o = V("x"), V("k"), V("a"), V("o")
    for n in sorted(set(UN) | set(BIN) | set(FUNCS)):
        if n not in R.reg:
            R.cases += 1
            R.bad[n] = "missing-element:" + n
            R.fail(R.bad[n], "registered operator/function %r" % n, "not registered", reg % n)
            continue
        trees = [_mk(n, x, k), _mk(n, a, x)] if n not in FUNCS else [[("c", n, (), False), ("c", n, (), True)], [("c", n, (x,)), ("c", n, (o,))],
                                                                        [("c", n, (x, k)), ("c", n, (a, x))]][ARITY[n]]
        before = dict(R.skipped)
        for t in trees:
            vs = sorted(used(t, set(), set())[0])
            for rep in range(3):
                envs = R.find_envs(t, want=5, tries=200)
                assert envs, ("no tame valuation for element", n)
                if len(vs) == 2:                                   # equal arguments (boundary of the relational functions)
                    envs = R.find_envs(t, want=1, tries=1, fixed=dict.fromkeys(vs, R.rng.choice(POOL))) + envs
                R.check_tree(t, envs, "value:function:" + n, "not-elementwise:" + n, styles=("min",), do_ill=False)
        if n in REL:
            c1, c2 = ("c", n, (x, k)), ("c", n, (a, o))
            pairs = [(p, q) for p in POOL for q in POOL if REL[n](p, q)]
            for t in (("b", "+", c1, c2), ("b", "-", c1, c2), ("b", "*", ("n", 2.0, "2"), c1), ("u", ".-", c1), ("b", "+", ("b", "+", c1, c2), c1)):
                both = [dict({v: R.rng.choice(POOL) for v in NAMES}, **dict(zip("xkao", R.rng.choice(pairs) + R.rng.choice(pairs)))) for _ in range(3)]
                R.check_tree(t, both + R.find_envs(t, want=2), "indicator-not-numeric:" + n, "indicator-not-numeric:" + n, styles=("min",), do_ill=False, postfix=False)
        for c in [c for c in R.skipped if R.skipped[c] != before.get(c, 0)][:1]:
            R.bad[n] = c                                           # later failures of trees using n are attributed to this class

def _extras(R):
    """special surface cases: chains of prefix operators, literal spellings, texts that are not infix at all"""
    fl = R.fl
    call = "import fuzzylite as fl; print(fl.Function.create('f', %r).membership(1.5))"
    probe = lambda text: (lambda r: r[1] or r[0])(_try(lambda: fl.Function.create("f", text).membership(1.5)))  # noqa
    chains = ("~ .- x", "~ .+ x", "~.-.-x", "2 ^ ~ .- x")          # a prefix operator applied to a looser-binding prefix operator
    for text, want, cls in [(t, ev(_ref_parse(t), {"x": 1.5}, [0.0])[0], "rejected-wellformed:unary-chain") for t in chains] + [
            ("x + .5", 2.0, "literal:leading-dot"), ("x * 1e3", 1500.0, "literal:exponent"), ("x + 1e-3", 1.501, "literal:signed-exponent"),
            ("x * 2.5e+1", 37.5, "literal:signed-exponent")]:
        R.cases += 1
        obs = probe(text)
        if isinstance(obs, str) or not R.close(obs, want, 1.0):
            R.fail(cls, want, obs, call % text)
    R.cases += 1        # a constant with more digits than Op.str prints: the postfix text no longer denotes the same function
    t = fl.Function.create("f", "x * 0.12345")
    obs = R.PF.parse(t.root.postfix()).evaluate({"x": 1000.0})
    if not R.close(obs, 123.45, 1.0):
        R.fail("postfix:literal-precision", 123.45, "%r from postfix %r" % (obs, t.root.postfix()),
               "import fuzzylite as fl; print(fl.Function.create('f', 'x * 0.12345').root.postfix())  # reparsed and evaluated at x=1000")
    acc = []            # the right NUMBER of operands, but the arrangement is not infix (beyond the kinds listed in C17): one class
    for text in ("max ( x 2 )", "max ( ( x , 2 ) )", "x 2 +", "+ x 2", "sin x", "x ( 2 * )", "( x , 2 ) +"):
        R.cases += 1
        assert _refuses(text), ("well-formed for the reference parser", text)
        t, err = _try(fl.Function.create, "f", text)
        if not err:
            acc.append("%r -> postfix %r" % (text, t.root.postfix()))
        elif err.split(":")[0] not in REJECTIONS:
            R.fail("illformed-internal-error:" + err.split(":")[0], "SyntaxError", err, "import fuzzylite as fl; fl.Function.create('f', %r)" % text)
    if acc:
        R.fail("accepted-illformed:arrangement", "SyntaxError when loaded (not an infix formula)", "; ".join(acc), "import fuzzylite as fl; fl.Function.create('f', 'max ( x 2 )')")
    R.check_ill(None, variants=[("empty-formula", []), ("empty-parentheses", ["(", ")"]), ("bare-minus", ["-", "x"])])

def _resolution(R):
    """variables resolve to the engine's CURRENT values, the term's own variables and x; clashes are rejected as documented"""
    np, fl = R.np, R.fl
    text = "a + 10 * o + 100 * k + 1000 * x"
    e = fl.Engine("e", input_variables=[fl.InputVariable("a")], output_variables=[fl.OutputVariable("o")])
    term = fl.Function("f", text, engine=e, variables={"k": 1.0}, load=True)
    hist = []
    for av, ov, kv, xv in [(1.0, 2.0, 3.0, 4.0), (5.0, 2.0, 3.0, 4.0), (5.0, 6.0, 3.0, 4.0), (5.0, 6.0, 7.0, 4.0), (5.0, 6.0, 7.0, 8.0),
                           (np.array([1.0, 2.0, 3.0, 4.0]), 2.0, np.array([0.5, 1.5, 2.5, 3.5]), 1.0)]:
        R.cases += 1
        e.input_variable("a").value, e.output_variable("o").value, term.variables["k"] = av, ov, kv
        hist.append((av, ov, kv, xv))
        want = av + 10 * ov + 100 * kv + 1000 * xv
        obs, err = _try(term.membership, xv)
        if err or np.shape(obs) != np.shape(want) or not np.all(np.abs(np.asarray(obs, dtype=float) - want) <= 1e-9 * np.abs(want)):
            R.fail("resolution:current-values", want, err or obs, "fl.Function('f', %r, engine=e, variables={'k': ..}, load=True) loaded once; then (a, o, k, x) set in turn to %s, "
                   "membership(x) after each" % (text, hist))
    # a disabled variable still HAS a current value: formulas resolve it like any other
    for which in ("a", "o"):
        R.cases += 1
        e.input_variable("a").enabled, e.output_variable("o").enabled = which != "a", which != "o"
        e.input_variable("a").value, e.output_variable("o").value, term.variables["k"] = 1.0, 2.0, 3.0
        obs, err = _try(term.membership, 4.0)
        if err or abs(float(obs) - 4321.0) > 1e-9:
            R.fail("resolution:disabled-variable", 4321.0, err or obs, "fl.Function('f', %r, engine=e, variables={'k': 3.0}, load=True).membership(4.0) with a=1, o=2 and variable %r disabled" % (text, which))
    e.input_variable("a").enabled = e.output_variable("o").enabled = True
    # the term's own variables are ITS OWN map: the dictionary passed to the constructor (and a sibling term built from the same dictionary) stays independent
    R.cases += 1
    shared = {"k": 1.0}
    f1, f2 = fl.Function("f1", "k + x", variables=shared, load=True), fl.Function("f2", "k * x", variables=shared, load=True)
    shared["k"] = 90.0
    f2.variables["k"] = 5.0
    o1, e1 = _try(f1.membership, 9.0)
    o2, e2_ = _try(f2.membership, 9.0)
    if e1 or e2_ or abs(float(o1) - 10.0) > 1e-9 or abs(float(o2) - 45.0) > 1e-9:
        R.fail("resolution:own-variables-are-a-copy", [10.0, 45.0], [e1 or o1, e2_ or o2],
               "d = {'k': 1.0}; f1 = fl.Function('f1', 'k + x', variables=d, load=True); f2 = fl.Function('f2', 'k * x', variables=d, load=True); d['k'] = 90.0; f2.variables['k'] = 5.0; [f1.membership(9.0), f2.membership(9.0)]")
    env = {"fl": fl, "e": e, "e2": fl.Engine("e", input_variables=[fl.InputVariable("x")], output_variables=[fl.OutputVariable("o")])}
    for name, want, code in [("clash-own-vs-engine", "ValueError", "fl.Function('f', 'a + k', engine=e, variables={'a': 1.0, 'k': 2.0}, load=True).membership(1.0)"),
                             ("clash-own-x", "ValueError", "fl.Function('f', 'x + 1', variables={'x': 1.0}, load=True).membership(1.0)"),
                             ("clash-engine-x", "ValueError", "fl.Function('f', 'x + 1', engine=e2, load=True).membership(1.0)"),
                             ("unknown-variable", "ValueError", "fl.Function.create('f', 'x + zz', e).membership(1.0)"),
                             ("not-loaded", "RuntimeError", "fl.Function('f', 'x + 1').membership(1.0)")]:
        R.cases += 1
        got = (_try(eval, code, env)[1] or "no exception").split(":")[0]
        if got != want:
            R.fail("resolution:" + name, want + " as documented", got, "import fuzzylite as fl; e = <engine with input a, output o>; e2 = <engine with an input named x>; " + code)


def replay_formulas(fl, FA, vals=None, seed=0, budget=200, depth=None, arrays=True, skip_classes=(), only_class=None, **kw):
    """C17 on generated formulas.  Fixed systematic part: every element on its own, variable resolution, special surface cases,
    ALL ordered operator pairs in both nestings (class `value:<outer>/<inner>`), every function x every operator; then
    3 x `budget` random well-typed trees of height <= `depth` (default 5) (class `value:random`); from budget >= 2000 (or
    triples=True) also all triples of binary operators in all five bracketings.  Each tree: minimal / full / redundant
    parentheses x spacing variants, scalar and array valuations (membership and evaluate), postfix round trip, ill-formed
    variants of its text.  Other classes: value:function:<name>, indicator-not-numeric:<name>, not-elementwise:<name>,
    undocumented-element:<name>, missing-element:<name>, crash:<Type>@load|membership|evaluate, spacing:<mode>,
    postfix:text|reparse|literal-precision, resolution:<what>, rejected-wellformed:unary-chain, literal:<form>,
    accepted-illformed:<kind>, illformed-internal-error:<Type>."""
    import warnings
    import numpy as np
    R = _Run(fl, seed, arrays, skip_classes, only_class)
    depth = depth or 5
    saved = (fl.settings.factory_manager, fl.settings.decimals, fl.settings.float_type)
    try:
        with warnings.catch_warnings(), np.errstate(all="ignore"):
            warnings.simplefilter("ignore")
            _elements(R)
            _resolution(R)
            _extras(R)
            for t, alt, label in skeletons(R.rng):
                envs = R.find_envs(t, alt)
                if not R.n_good and t != _delit(t):             # an unlucky literal (zero divisor, neutral element): variables only
                    t, alt = _delit(t), (_delit(alt) if alt else None)
                    envs = R.find_envs(t, alt, tries=2000)
                assert envs, ("no tame valuation for skeleton", label, t)
                R.check_tree(t, envs, "value:" + label)
            for t, label in call_skeletons(R.rng):
                envs = R.find_envs(t)
                if not envs:
                    t = _delit(t)
                    envs = R.find_envs(t, tries=2000)
                if envs:
                    R.check_tree(t, envs, "value:" + label, styles=("min", R.rng.choice(["full", "red"])))
            if budget >= 2000 or kw.get("triples"):
                for o1 in BIN:
                    for o2 in BIN:
                        for o3 in BIN:
                            for t in _shapes(_leafs(R.rng, 4)[:3] + [V(R.rng.choice(NAMES))], [o1, o2, o3]):
                                envs = R.find_envs(t, tries=60) if welltyped(t) else None
                                if envs:
                                    R.check_tree(t, envs, "value:%s/%s" % (t[1], t[2][1] if t[2][0] == "b" else t[3][1]), styles=("min",), do_ill=False, postfix=False)
            made = tries = 0
            funcs = sorted(n for n in ARITY if ARITY[n] > 0)
            while made < 3 * budget and tries < 60 * budget:
                tries += 1
                names = R.rng.sample(list(NAMES), R.rng.randint(1, 3))
                t = gen(R.rng, R.rng.randint(2, depth), "B" if R.rng.random() < 0.2 else "N", names, [] if R.rng.random() < 0.4 else funcs)
                envs = R.find_envs(t, tries=40) if height(t) >= 2 else None
                if envs:
                    made += 1
                    R.check_tree(t, envs, "value:random")
    except _Fail as f:
        return f.args[0]
    finally:
        fl.settings.factory_manager, fl.settings.decimals, fl.settings.float_type = saved
    out = {"failed": False, "cases": R.cases, "distinct": len(R.distinct), "rejection_types": R.rejections}
    out.update({k: v for k, v in (("skipped", R.skipped), ("ignored", R.ignored)) if v})
    return out


def replay_table(fl, FA, vals=None, seed=0, budget=200, skip_classes=(), only_class=None, **kw):
    """the REGISTERED table against the oracle table: relative precedence (order and ties), associativity direction, arity and
    element type of each of the 13 operators; arity of each function = documented arity = what its method takes.
    Class `table:<name>` (the element involved in most disagreements first)."""
    import inspect
    import numpy as np
    reg = fl.settings.factory_manager.function.objects
    sg = lambda v: (v > 0) - (v < 0)  # noqa
    table = dict([(n, (lv, "R", 1)) for n, lv in UN.items()] + [(n, (lv, a, 2)) for n, (lv, a) in BIN.items()])
    problems = [(n, "a documented element", "registered element %r" % n) for n in sorted(set(reg) - set(table) - set(FUNCS))]
    cases = 0
    for n, (lv, asc, ar) in sorted(table.items()):
        cases += 1
        e = reg.get(n)
        if e is None or not e.is_operator():
            problems.append((n, "registered operator", "missing" if e is None else "type %r" % (e.type,)))
            continue
        if e.arity != ar:
            problems.append((n, "arity %d" % ar, "arity %r" % (e.arity,)))
        if (e.associativity > 0) != (asc == "R") or e.associativity == 0:
            problems.append((n, "%s-associative (associativity %s 0)" % (("right", ">") if asc == "R" else ("left", "<")), "associativity %r" % (e.associativity,)))
        for n2, (lv2, _, _) in sorted(table.items()):
            cases += 1
            if n2 != n and n2 in reg and sg(e.precedence - reg[n2].precedence) != sg(lv - lv2):
                problems.append((n, "%s binds %s %s" % (n, {1: "tighter than", 0: "as tight as", -1: "looser than"}[sg(lv - lv2)], n2),
                                 "precedence %r vs %r" % (e.precedence, reg[n2].precedence)))
    for n, ar in sorted(ARITY.items()):
        cases += 1
        e = reg.get(n)
        if e is None or not e.is_function():
            problems.append((n, "registered function", "missing" if e is None else "type %r" % (e.type,)))
            continue
        if e.arity != ar:
            problems.append((n, "documented arity %d" % ar, "arity %r" % (e.arity,)))
        m, lo, hi = e.method, None, None
        sig = None if isinstance(m, np.ufunc) else _try(inspect.signature, m)[0]   # none for builtins (variadic min/max): only probed
        if isinstance(m, np.ufunc):
            lo = hi = m.nin
        elif sig is not None:
            pos = [p for p in sig.parameters.values() if p.kind in (p.POSITIONAL_ONLY, p.POSITIONAL_OR_KEYWORD)]
            lo = sum(1 for p in pos if p.default is p.empty)
            hi = 99 if any(p.kind == p.VAR_POSITIONAL for p in sig.parameters.values()) else len(pos)
        if lo is not None and not (lo <= e.arity <= hi):
            problems.append((n, "arity = number of parameters of its method (%s..%s)" % (lo, hi), "arity %r" % (e.arity,)))
        r, err = _try(m, *[0.5, 0.25][:e.arity])
        if err or np.shape(r) != ():
            problems.append((n, "method takes %d scalar arguments and returns a scalar" % e.arity, err or repr(r)))
        # an undefined operand gives an undefined result (the library's convention for every numeric function: NaN in, NaN out); the relational
        # indicators are the documented exception (they answer 0/1)
        if e.arity >= 1 and n not in REL and not err:
            for k in range(e.arity):
                args = [0.5, 0.25][:e.arity]
                args[k] = float("nan")
                r2, err2 = _try(m, *args)
                if err2 or not (np.shape(r2) == () and np.isnan(r2)):
                    problems.append((n, "%s(%s) is nan" % (n, ", ".join(repr(a) for a in args)), err2 or repr(r2)))
    count = {n: sum(1 for p in problems if p[0] == n) for n, _, _ in problems}
    skipped = {}
    for n, expd, obs in sorted(problems, key=lambda p: (-count[p[0]], p[0])):
        if "table:" + n in set(skip_classes or ()) or (only_class and "table:" + n != only_class):
            skipped["table:" + n] = skipped.get("table:" + n, 0) + 1
            continue
        return {"failed": True, "class": "table:" + n, "expected": expd, "cases": cases,
                "observed": "%s (%d disagreements involve %s; all: %s)" % (obs, count[n], n, sorted(count.items())[:12]),
                "call": "import fuzzylite as fl; e = fl.settings.factory_manager.function.objects[%r]; print(e.arity, e.precedence, e.associativity, e.method)" % n}
    return dict({"failed": False, "cases": cases, "distinct": len(table) + len(FUNCS)}, **({"skipped": skipped} if skipped else {}))
