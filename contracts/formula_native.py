"""Native bounded stand-in and replay search for C17 (Function formulas follow the documented precedence/associativity).

Runs the REAL package: formulas are loaded with `fl.Function(...)`/`fl.Function.create` and evaluated with
`term.membership(x)` / `term.evaluate(variables)`; the tree is printed back with `term.root.postfix()`.

ORACLE (written from the statement of C17 and the docstrings, never from factory.py / the parser):
 * operator table, tightest first: `! ~` (prefix, right) ; `^ **` (binary, right) with the prefix `.- .+` on the same
   level (right) ; `* / %` (left) ; `+ -` (left) ; `and` (left) ; `or` (left).  It is used by (i) a printer that puts the
   minimal parentheses a tree needs and (ii) an independent precedence-climbing parser (`_ref_parse`) with which every text
   the harness produces is cross-checked (well-formed texts must give the tree back, ill-formed ones must be refused): a
   disagreement of the two is a harness fault (AssertionError), never reported as a failure of the library.
 * meanings: computed per element with `math` / Python floats: `!` not, `~` `.-` negation, `.+` identity, `^` `**` `pow`
   float power, `%` "Modulo" = floored remainder (sign of the divisor, Python's float `%`; the docstrings only say
   "Modulo"), `fmod` "Floating-point remainder" = C fmod (sign of the dividend), `gt ge eq neq le lt` 0/1 indicators
   usable in arithmetic, `round` half-to-even (only exercised away from ties unless the argument is exact), `pi`, and the
   usual elementary functions.  Truth values: nonzero = true.  Arrays: elementwise = per-element scalar results.
 * the registered names are read from `fl.settings.factory_manager.function` ONLY to check that all of them are covered
   (`undocumented-element`) and (replay_table) to compare the registered precedence/associativity/arity with the table.
Operands are kept in tame domains (`_Dom` rejects a valuation: zero divisors, negative bases with inexact exponents,
arguments next to a discontinuity of floor/ceil/round/%/relational functions unless exact, |values| > 1e6), the
tolerance is 1e-9 relative plus 1e-12 of the largest intermediate magnitude.
Surface syntax (from Function.format_infix / infix_to_postfix docstrings and tests): every operator except `and`/`or`
is self-delimiting (spaces optional), unary minus/plus are spelled `.-` `.+` (a bare `-x` is documented as unsupported),
calls are `f(a, b)`, the constant is `pi` or `pi()`, literals are non-negative decimal numbers.
"""
import math
import random
import re

UN = {"!": 6, "~": 6, ".-": 5, ".+": 5}
BIN = {"^": (5, "R"), "**": (5, "R"), "*": (4, "L"), "/": (4, "L"), "%": (4, "L"), "+": (3, "L"), "-": (3, "L"),
       "and": (2, "L"), "or": (1, "L")}
LOGICAL = ("!", "and", "or")
REL = {"gt": lambda a, b: a > b, "ge": lambda a, b: a >= b, "eq": lambda a, b: a == b, "neq": lambda a, b: a != b,
       "le": lambda a, b: a <= b, "lt": lambda a, b: a < b}
ENG_IN, ENG_OUT, OWN = ("a", "b"), ("o",), ("k", "m")
NAMES = ("x",) + ENG_IN + ENG_OUT + OWN
POOL = [2.0, 3.0, 0.5, 1.5, 4.0, 0.25, 5.0, -2.0, -1.5, 1.0, 0.0, 7.0, -3.0, 2.5, 0.75, -0.5]
LITS = [("2", 2.0), ("3", 3.0), ("0.5", 0.5), ("1.5", 1.5), ("4.0", 4.0), ("0.25", 0.25), ("1", 1.0), ("0", 0.0),
        ("10", 10.0), ("2.50", 2.5), ("0.125", 0.125), ("7", 7.0), ("1.000", 1.0), ("6", 6.0)]
REJECTIONS = ("SyntaxError", "ValueError")


class _Dom(Exception):
    """the valuation leaves the tame domain (not a failure: another valuation is tried)"""


class _Ill(Exception):
    """the reference parser refuses the text"""


class _Fail(Exception):
    pass


# ------------------------------------------------------------------ reference meaning
def _need(c):
    if not c:
        raise _Dom


def _u1(fn, dom=None):
    def f(a, ea):
        if dom:
            _need(dom(a))
        return fn(a), False
    return f


def _step(fn, half):            # floor / ceil / round: piecewise constant, exact arguments only next to a jump
    def f(a, ea):
        d = abs(a + (0.5 if half else 0.0) - round(a + (0.5 if half else 0.0)))
        _need(ea or d > 1e-6)
        return float(fn(a)), ea
    return f


def _pow(a, b, ea, eb):
    _need(1e-3 <= abs(a) <= 1e3 and abs(b) <= 8)
    if a < 0:
        _need(eb and float(b).is_integer())
    try:
        return math.pow(a, b), False
    except (OverflowError, ValueError):
        raise _Dom


def _rem(fn):
    def f(a, b, ea, eb):
        _need(abs(b) >= 1e-3)
        q = a / b
        _need(abs(q) <= 1e6 and ((ea and eb) or abs(q - round(q)) > 1e-6))
        return fn(a, b), False
    return f


def _rel(name):
    def f(a, b, ea, eb):
        _need((ea and eb) or abs(a - b) > 1e-6 * max(1.0, abs(a), abs(b)))
        return (1.0 if REL[name](a, b) else 0.0), True
    return f


def _atan2(a, b, ea, eb):
    _need(abs(a) > 1e-6 or (ea and (b > 1e-6 or eb)))
    _need(not (a == 0 and b == 0))
    return math.atan2(a, b), False


def _dy(fn):                    # + - * keep "exact" for small dyadic values
    def f(a, b, ea, eb):
        r = fn(a, b)
        return r, bool(ea and eb and abs(r) < 1e6 and float(r * 1024).is_integer())
    return f


BINF = {"+": _dy(lambda a, b: a + b), "-": _dy(lambda a, b: a - b), "*": _dy(lambda a, b: a * b),
        "/": lambda a, b, ea, eb: (_need(abs(b) >= 1e-3), (a / b, False))[1], "%": _rem(lambda a, b: a % b),
        "^": _pow, "**": _pow}
FUNCS = {
    "pi": (0, lambda: (math.pi, True)),
    "acos": (1, _u1(math.acos, lambda a: abs(a) <= 0.99)), "asin": (1, _u1(math.asin, lambda a: abs(a) <= 0.99)),
    "atan": (1, _u1(math.atan)), "ceil": (1, _step(math.ceil, False)), "floor": (1, _step(math.floor, False)),
    "round": (1, _step(round, True)), "cos": (1, _u1(math.cos)), "sin": (1, _u1(math.sin)),
    "tan": (1, _u1(math.tan, lambda a: abs(math.cos(a)) > 0.05)), "cosh": (1, _u1(math.cosh, lambda a: abs(a) <= 10)),
    "sinh": (1, _u1(math.sinh, lambda a: abs(a) <= 10)), "tanh": (1, _u1(math.tanh)),
    "exp": (1, _u1(math.exp, lambda a: abs(a) <= 10)), "abs": (1, lambda a, ea: (abs(a), ea)), "fabs": (1, lambda a, ea: (abs(a), ea)),
    "log": (1, _u1(math.log, lambda a: a >= 1e-3)), "log10": (1, _u1(math.log10, lambda a: a >= 1e-3)),
    "log1p": (1, _u1(math.log1p, lambda a: a >= -0.9)), "sqrt": (1, _u1(math.sqrt, lambda a: a >= 1e-6)),
    "acosh": (1, _u1(math.acosh, lambda a: a >= 1.01)), "asinh": (1, _u1(math.asinh)),
    "atanh": (1, _u1(math.atanh, lambda a: abs(a) <= 0.99)),
    "pow": (2, _pow), "atan2": (2, _atan2), "fmod": (2, _rem(math.fmod)),
    "min": (2, lambda a, b, ea, eb: (a, ea) if a <= b else (b, eb)), "max": (2, lambda a, b, ea, eb: (a, ea) if a >= b else (b, eb)),
}
for _n in REL:
    FUNCS[_n] = (2, _rel(_n))


def _truth(v, ex):
    if isinstance(v, bool):
        return v
    _need(ex or abs(v) > 1e-6)
    return v != 0.0


def ev(t, env, st):
    """reference value of a tree: (value, exact); value is a float, or a bool for results of ! and or"""
    k = t[0]
    if k == "n":
        return t[1], True
    if k == "v":
        return float(env[t[1]]), True
    if k == "u":
        v, ex = ev(t[2], env, st)
        if t[1] == "!":
            return (not _truth(v, ex)), True
        r = (v if t[1] == ".+" else -v), ex
    elif k == "b":
        a, ea = ev(t[2], env, st)
        b, eb = ev(t[3], env, st)
        if t[1] in ("and", "or"):
            ta, tb = _truth(a, ea), _truth(b, eb)
            return ((ta and tb) if t[1] == "and" else (ta or tb)), True
        r = BINF[t[1]](a, b, ea, eb)
    else:
        args = [ev(c, env, st) for c in t[2]]
        r = FUNCS[t[1]][1](*([a[0] for a in args] + [a[1] for a in args]))
    _need(math.isfinite(r[0]) and abs(r[0]) <= 1e6)
    st[0] = max(st[0], abs(r[0]))
    return r


def kids(t):
    return () if t[0] in "nv" else ((t[2],) if t[0] == "u" else ((t[2], t[3]) if t[0] == "b" else tuple(t[2])))

def is_bool(t):
    return t[0] in "ub" and t[1] in LOGICAL

def welltyped(t):
    return all(welltyped(c) for c in kids(t)) and (is_bool(t) or not any(is_bool(c) for c in kids(t)))

def rebuild(t, f):
    """the tree with f applied to every leaf"""
    if t[0] in "nv":
        return f(t)
    ks = [rebuild(c, f) for c in kids(t)]
    return (t[0], t[1]) + (tuple(ks) if t[0] != "c" else (tuple(ks),) + t[3:])

def norm(t):
    return rebuild(t, lambda l: ("n", float(l[1])) if l[0] == "n" else l)[:3 if t[0] == "c" else 4] if t[0] not in "nv" else (("n", float(t[1])) if t[0] == "n" else t)

def shape(t):
    return "." if t[0] in "nv" else (t[1],) + tuple(shape(c) for c in kids(t))

def used(t, vs, es):
    if t[0] == "v":
        vs.add(t[1])
    elif t[0] != "n":
        es.add(t[1])
        for c in kids(t):
            used(c, vs, es)
    return vs, es

def height(t):
    return 1 + max([height(c) for c in kids(t)] or [0])


# ------------------------------------------------------------------ printer (tokens) and spacing
def level(t):
    return UN[t[1]] if t[0] == "u" else (BIN[t[1]][0] if t[0] == "b" else 9)


def toks(t, style, rng):
    """style: 'min' minimal parentheses by the table, 'full' every operator application parenthesised, 'red' minimal plus
    random redundant ones"""
    def sub(c, need):
        s = toks(c, style, rng)
        if need or (style == "full" and c[0] in "ub"):
            s = ["("] + s + [")"]
        while style == "red" and rng.random() < 0.25:
            s = ["("] + s + [")"]
        return s
    k = t[0]
    if k == "n":
        return [t[2]]
    if k == "v":
        return [t[1]]
    if k == "c":
        if not t[2]:
            return [t[1], "(", ")"] if (len(t) > 3 and t[3]) else [t[1]]
        out = [t[1], "("]
        for i, c in enumerate(t[2]):
            out += ([","] if i else []) + sub(c, False)
        return out + [")"]
    if k == "u":
        return [t[1]] + sub(t[2], level(t[2]) < level(t))
    lv, asc = BIN[t[1]]
    l, r = level(t[2]), level(t[3])
    return sub(t[2], l < lv or (l == lv and asc == "R")) + [t[1]] + sub(t[3], r < lv or (r == lv and asc == "L"))


def _word(ch):
    return ch.isalnum() or ch == "_"


def join(tk, mode, rng):
    if mode == "single":
        return " ".join(tk)
    out = []
    for i, t in enumerate(tk):
        need = i > 0 and _word(tk[i - 1][-1]) and _word(t[0])
        sp = "" if mode == "compact" else rng.choice(["", "", " ", "  ", " \t", "   "])
        out.append(((sp or " ") if need else (sp if i else "")) + t)
    return "".join(out) if mode == "compact" else rng.choice(["", " ", "  "]) + "".join(out) + rng.choice(["", " ", "\t "])


# ------------------------------------------------------------------ reference parser (precedence climbing from the table)
_TOK = re.compile(r"\s*(\*\*|\.-|\.\+|[-+*/%^!~(),]|[A-Za-z_]\w*|\d+\.?\d*(?:[eE]\d+)?|\.\d+)")


def _ref_parse(text, arity):
    tk, pos = [], 0
    text = text.rstrip()
    while pos < len(text):
        m = _TOK.match(text, pos)
        if not m:
            raise _Ill("token at %d" % pos)
        tk.append(m.group(1))
        pos = m.end()
    p = [0]

    def peek():
        return tk[p[0]] if p[0] < len(tk) else None

    def eat(x=None):
        t = peek()
        if t is None or (x is not None and t != x):
            raise _Ill("expected %r, found %r" % (x, t))
        p[0] += 1
        return t

    def atom():
        t = eat()
        if t == "(":
            e = expr(0)
            eat(")")
            return e
        if t[0].isdigit() or (t[0] == "." and len(t) > 1 and t[1].isdigit()):
            return ("n", float(t))
        if not _word(t[0]) or t in BIN:
            raise _Ill("operand expected, found %r" % t)
        if t in arity:
            args = []
            if arity[t] == 0:
                if peek() == "(":
                    eat("(")
                    eat(")")
                return ("c", t, ())
            eat("(")
            args.append(expr(0))
            while peek() == ",":
                eat(",")
                args.append(expr(0))
            eat(")")
            if len(args) != arity[t]:
                raise _Ill("arity of %s" % t)
            return ("c", t, tuple(args))
        return ("v", t)

    def expr(minlv):
        t = peek()
        if t in UN:
            eat()
            left = ("u", t, expr(UN[t]))
        else:
            left = atom()
        while peek() in BIN and BIN[peek()][0] >= minlv:
            op = eat()
            lv, asc = BIN[op]
            left = ("b", op, left, expr(lv + 1 if asc == "L" else lv))
        return left

    e = expr(0)
    if peek() is not None:
        raise _Ill("trailing %r" % peek())
    return e


def _from_postfix(text, arity):
    st = []
    for t in text.split():
        if t in UN:
            st.append(("u", t, st.pop()))
        elif t in BIN:
            r = st.pop()
            st.append(("b", t, st.pop(), r))
        elif t in arity:
            args = [st.pop() for _ in range(arity[t])][::-1]
            st.append(("c", t, tuple(args)))
        else:
            try:
                st.append(("n", float(t)))
            except ValueError:
                st.append(("v", t))
    if len(st) != 1:
        raise IndexError("postfix leaves %d trees" % len(st))
    return st[0]


# ------------------------------------------------------------------ ill-formed variants (token level)
def _match(tk, i):
    d = 0
    for j in range(i, len(tk)):
        d += (tk[j] == "(") - (tk[j] == ")")
        if d == 0:
            return j
    return None


def illformed(tk, arity, rng):
    """(kind, tokens) variants of a well-formed token list; kinds named in the quantifier of C17"""
    out = []
    opnd = [i for i, t in enumerate(tk) if t not in UN and t not in BIN and t not in "(),"
            and (t not in arity or (arity[t] == 0 and (i + 1 == len(tk) or tk[i + 1] != "(")))]
    bins = [i for i, t in enumerate(tk) if t in BIN]
    calls = [i for i, t in enumerate(tk) if t in arity and arity[t] > 0]
    par = [i for i, t in enumerate(tk) if t in "()"]
    anybin = rng.choice(sorted(BIN))
    if opnd:
        i = rng.choice(opnd)
        out.append(("missing-operand", tk[:i] + tk[i + 1:]))
    if bins:
        i = rng.choice(bins)
        out.append(("missing-operator", tk[:i] + tk[i + 1:]))
        i = rng.choice(bins)
        out.append(("duplicate-operator", tk[:i] + [tk[i]] + tk[i:]))
    out.append(("trailing-operator", tk + [anybin]))
    out.append(("leading-operator", [anybin] + tk))
    if par:
        i = rng.choice(par)
        out.append(("unbalanced", tk[:i] + tk[i + 1:]))
    out.append(("unbalanced", rng.choice([["("] + tk, tk + [")"], tk + ["("], [")"] + tk])))
    if calls:
        i = rng.choice(calls)
        j = _match(tk, i + 1)
        commas = [c for c in range(i + 2, j) if tk[c] == "," and _match(tk, i + 1) == j and
                  sum((x == "(") - (x == ")") for x in tk[i + 2:c]) == 0]
        out.append(("wrong-arity", tk[:j] + [",", "x"] + tk[j:]))
        if commas:
            out.append(("wrong-arity", tk[:commas[0]] + tk[j:]))
            out.append(("empty-argument", tk[:commas[0] + 1] + tk[j:]))
            out.append(("empty-argument", tk[:i + 2] + tk[commas[0]:]))
        else:
            out.append(("empty-argument", tk[:i + 2] + tk[j:]))
    else:
        f = rng.choice(sorted(arity))
        n = arity[f]
        extra = rng.choice([k for k in (n - 1, n + 1) if k >= 1]) if n != 1 else 2
        out.append(("wrong-arity", [f, "("] + tk + [",", "x"] * (extra - 1) + [")"]))
        out.append(("empty-argument", ["max", "("] + tk + [",", ")"]))
    return out


# ------------------------------------------------------------------ the run context
class _Run:
    def __init__(self, fl, seed, arrays, skip, only):
        import numpy as np
        self.fl, self.np, self.rng = fl, np, random.Random(seed)
        self.arrays, self.skip, self.only = arrays, set(skip or ()), only
        self.cases, self.distinct, self.skipped, self.ignored = 0, set(), {}, {}
        self.bad, self.rejections = {}, {}
        reg = fl.settings.factory_manager.function.objects
        self.reg = {n: e for n, e in reg.items()}
        self.arity = {n: a for n, (a, _) in FUNCS.items()}
        self.engine = fl.Engine("e", input_variables=[fl.InputVariable(n) for n in ENG_IN],
                                output_variables=[fl.OutputVariable(n) for n in ENG_OUT])
        self.PF = type("PostfixFunction", (fl.Function,), {"infix_to_postfix": classmethod(lambda cls, formula: formula)})

    def fail(self, cls, expected, observed, call, elems=()):
        for n in sorted(elems):
            if n in self.bad:
                cls = self.bad[n]
                break
        if cls in self.skip:
            self.skipped[cls] = self.skipped.get(cls, 0) + 1
            return
        if self.only and cls != self.only:
            self.ignored[cls] = self.ignored.get(cls, 0) + 1
            return
        raise _Fail({"failed": True, "class": cls, "expected": str(expected)[:590], "observed": str(observed)[:590],
                     "call": str(call)[:1200], "cases": self.cases})

    def lit(self, v):
        return repr(float(v)) if self.np.ndim(v) == 0 else "np.array(%s)" % [float(z) for z in v]

    def snippet(self, text, env, vs, how="membership"):
        s = ["import numpy as np, fuzzylite as fl"]
        eng = [n for n in ENG_IN + ENG_OUT if n in vs]
        own = {n: env[n] for n in OWN if n in vs}
        if eng:
            s.append("e = fl.Engine('e', input_variables=[%s], output_variables=[%s])" % (
                ", ".join("fl.InputVariable(%r)" % n for n in ENG_IN if n in vs), ", ".join("fl.OutputVariable(%r)" % n for n in ENG_OUT if n in vs)))
            s += ["e.variable(%r).value = %s" % (n, self.lit(env[n])) for n in eng]
        s.append("t = fl.Function('f', %r%s%s, load=True)" % (text, ", engine=e" if eng else "",
                                                            (", variables={%s}" % ", ".join("%r: %s" % (n, self.lit(v)) for n, v in own.items())) if own else ""))
        if how == "membership":
            s.append("print(t.membership(%s))" % self.lit(env["x"]))
        else:
            s.append("print(%s)" % how)
        return "; ".join(s)

    def setenv(self, term, env):
        for n in ENG_IN + ENG_OUT:
            self.engine.variable(n).value = env[n]
        term.variables = {n: env[n] for n in OWN}

    def close(self, obs, exp, m):
        if isinstance(exp, bool):
            return bool(obs) == exp
        o = float(obs)
        return abs(o - exp) <= 1e-9 * abs(exp) + 1e-12 * max(m, 1.0)

    def expected(self, tree, env):
        st = [0.0]
        v, _ = ev(tree, env, st)
        return v, st[0]

    def find_envs(self, trees, alt=None, want=5, tries=400, fixed=None):
        """valuations on which all `trees` stay in the tame domain, preferring those where trees[0] and alt differ"""
        good, plain, seen = [], [], set()
        for it in range(tries):
            env = {n: self.rng.choice(POOL) for n in NAMES}
            env.update(fixed or {})
            key = tuple(env[n] for n in NAMES)
            if key in seen:
                continue
            seen.add(key)
            try:
                vals = [self.expected(t, env)[0] for t in trees]
            except _Dom:
                continue
            disc = alt is None
            if alt is not None:
                try:
                    w, v = self.expected(alt, env)[0], vals[0]
                    disc = (w != v) if isinstance(v, bool) or isinstance(w, bool) else abs(w - v) > 1e-3 * max(1.0, abs(v), abs(w))
                except _Dom:
                    disc = False
            (good if disc else plain).append(env)
            if len(good) >= want or (it > 150 and len(good) + len(plain) >= want):
                break
        return (good + plain)[:want]

    # -------------------------------------------------------------- one well-formed tree against the library
    def check_tree(self, tree, envs, cls, acls=None, styles=("min", "full", "red"), do_ill=True, postfix=True):
        np, fl, rng = self.np, self.fl, self.rng
        vs, es = used(tree, set(), set())
        exp = [self.expected(tree, e) for e in envs]
        self.distinct.add(shape(tree))
        first = True
        for style in styles:
            tk = toks(tree, style, rng)
            for mode in (("single", rng.choice(["compact", "random"])) if first else (rng.choice(["single", "compact", "random"]),)):
                text = join(tk, mode, rng)
                back = _ref_parse(text, self.arity)          # harness self-check (printer vs reference parser)
                assert norm(back) == norm(tree), ("printer/reference parser disagree", text, back, tree)
                self.cases += 1
                prob = self.run_text(text, tree, envs, exp, vs, cls, acls, postfix and first)
                if prob and mode != "single" and not self.run_text(" ".join(tk), tree, envs, exp, vs, cls, acls, False):
                    prob = ("spacing:" + mode,) + prob[1:]
                if prob:
                    self.fail(prob[0], prob[1], prob[2], prob[3], es)
                    return
                first = False
        if do_ill:
            self.check_ill(toks(tree, rng.choice(["min", "full"]), rng))

    def run_text(self, text, tree, envs, exp, vs, cls, acls, postfix):
        """returns None, or (class, expected, observed, call)"""
        np, fl = self.np, self.fl
        own0 = {n: envs[0][n] for n in OWN}
        try:
            if self.rng.random() < 0.5:
                term = fl.Function("f", text, engine=self.engine, variables=own0, load=True)
            else:
                term = fl.Function.create("f", text, self.engine)
        except Exception as ex:  # noqa
            return ("crash:%s@load" % type(ex).__name__, "formula loads (well-formed: reference tree %s)" % (norm(tree),),
                    "%s: %s" % (type(ex).__name__, ex), "import fuzzylite as fl; fl.Function.create('f', %r)" % text)
        for i, env in enumerate(envs[:3]):
            want, m = exp[i]
            for how in ("membership", "evaluate"):
                try:
                    self.setenv(term, env)
                    obs = term.membership(env["x"]) if how == "membership" else term.evaluate(dict(env))
                except Exception as ex:  # noqa
                    return (cls if cls.startswith(("value:function:", "indicator-")) else "crash:%s@%s" % (type(ex).__name__, how), want, "%s: %s" % (type(ex).__name__, ex), self.snippet(text, env, vs))
                if np.ndim(obs) != 0 or not self.close(obs, want, m):
                    return (cls, want, repr(obs), self.snippet(text, env, vs))
        if postfix:
            env, (want, m) = envs[0], exp[0]
            try:
                pf = term.root.postfix()
                back = _from_postfix(pf, self.arity)
            except Exception as ex:  # noqa
                return ("postfix:text", "postfix of the loaded tree", "%s: %s" % (type(ex).__name__, ex), self.snippet(text, env, vs, "t.root.postfix()"))
            if norm(back) != norm(tree):
                return ("postfix:text", "postfix print of %s" % (norm(tree),), pf, self.snippet(text, env, vs, "t.root.postfix()"))
            try:
                obs = self.PF.parse(pf).evaluate(dict(env))
            except Exception as ex:  # noqa
                obs = "%s: %s" % (type(ex).__name__, ex)
            if isinstance(obs, str) or np.ndim(obs) != 0 or not self.close(obs, want, m):
                return ("postfix:reparse", want, obs, self.snippet(text, env, vs, "t.root.postfix()") +
                        "  # then the postfix->tree half of Function.parse on that text (subclass with infix_to_postfix = identity), evaluate")
        if self.arrays and envs:
            sets = []
            es4 = [envs[i % len(envs)] for i in range(max(4, len(envs)))][:5]
            sets.append(({n: np.array([e[n] for e in es4]) for n in NAMES}, es4, set(NAMES)))
            if "x" in vs and self.rng.random() < 0.5:                 # only x is an array
                xs = []
                for xv in POOL:
                    try:
                        self.expected(tree, dict(envs[0], x=xv))
                        xs.append(xv)
                    except _Dom:
                        pass
                xs = [xs[i % len(xs)] for i in range(max(4, min(5, len(xs))))]
                es5 = [dict(envs[0], x=xv) for xv in xs]
                sets.append((dict(envs[0], x=np.array(xs)), es5, {"x"}))
            for aenv, elems, arrs in sets:
                wants = [self.expected(tree, e) for e in elems]
                isarr = bool(vs & arrs)
                for how in ("membership", "evaluate"):
                    call = self.snippet(text, aenv, vs)
                    try:
                        self.setenv(term, aenv)
                        obs = term.membership(aenv["x"]) if how == "membership" else term.evaluate(dict(aenv))
                    except Exception as ex:  # noqa
                        return (acls or "not-elementwise:" + cls.split(":", 1)[-1], [w for w, _ in wants], "%s: %s" % (type(ex).__name__, ex), call)
                    ok = (np.shape(obs) == (len(elems),)) if isarr else (np.ndim(obs) == 0)
                    if ok:
                        ok = all(self.close(o, w, m) for o, (w, m) in zip(np.atleast_1d(obs), wants if isarr else wants[:1]))
                    if not ok:
                        return (acls or "not-elementwise:" + cls.split(":", 1)[-1], [w for w, _ in wants] if isarr else wants[0][0], repr(obs), call)
        return None

    def check_ill(self, tk, limit=4, variants=None):
        vs = variants if variants is not None else illformed(tk, self.arity, self.rng)
        if variants is None and len(vs) > limit:
            vs = self.rng.sample(vs, limit)
        for kind, v in vs:
            text = " ".join(v)
            try:
                _ref_parse(text, self.arity)
                assert variants is not None, ("variant is well-formed for the reference parser", kind, text)
                continue
            except _Ill:
                pass
            self.cases += 1
            call = "import fuzzylite as fl; fl.Function.create('f', %r)" % text
            try:
                t = self.fl.Function.create("f", text, self.engine)
            except Exception as ex:  # noqa
                name = type(ex).__name__
                self.rejections[name] = self.rejections.get(name, 0) + 1
                if name not in REJECTIONS:
                    self.fail("illformed-internal-error:" + name, "rejected with SyntaxError (or ValueError): ill-formed (%s)" % kind, "%s: %s" % (name, ex), call)
                continue
            self.fail("accepted-illformed:" + kind, "rejected when loaded: ill-formed (%s)" % kind, "loaded, postfix %r" % t.root.postfix(), call)


# ------------------------------------------------------------------ generators
def V(n):
    return ("v", n)


def _leafs(rng, n, allow_lit=True):
    names = rng.sample(list(NAMES), 3)
    out = [V(names[i % 3]) for i in range(n)]
    if allow_lit and rng.random() < 0.5:
        s, v = rng.choice(LITS)
        out[rng.randrange(n)] = ("n", v, s)
    return out


def _delit(t):
    """the same tree with its literals replaced by variables the tree does not use yet"""
    free = [n for n in NAMES if n not in used(t, set(), set())[0]]

    def go(t):
        if t[0] == "n":
            return V(free[0])
        if t[0] == "v":
            return t
        if t[0] == "u":
            return ("u", t[1], go(t[2]))
        return ("b", t[1], go(t[2]), go(t[3])) if t[0] == "b" else ("c", t[1], tuple(go(c) for c in t[2])) + t[3:]
    return go(t)


def _mk(op, *kids):
    return ("u", op, kids[0]) if op in UN else ("b", op, kids[0], kids[1])


def skeletons(rng):
    """all ordered pairs (outer, inner) of the 13 operators in every position: (tree, alternative reading or None, label)"""
    allops = list(UN) + list(BIN)
    for o in allops:
        for i in allops:
            p = _leafs(rng, 3)
            forms = []
            if o in BIN and i in BIN:
                forms = [(_mk(o, _mk(i, p[0], p[1]), p[2]), _mk(i, p[0], _mk(o, p[1], p[2]))),
                         (_mk(o, p[0], _mk(i, p[1], p[2])), _mk(i, _mk(o, p[0], p[1]), p[2]))]
            elif o in BIN:
                forms = [(_mk(o, _mk(i, p[0]), p[1]), _mk(i, _mk(o, p[0], p[1]))), (_mk(o, p[0], _mk(i, p[1])), None)]
            elif i in BIN:
                forms = [(_mk(o, _mk(i, p[0], p[1])), _mk(i, _mk(o, p[0]), p[1]))]
            else:
                forms = [(_mk(o, _mk(i, p[0])), None)]
            for t, alt in forms:
                if welltyped(t):
                    yield t, (alt if alt is not None and welltyped(alt) else None), "%s/%s" % (o, i)


def _shapes(leaves, ops):
    if len(leaves) == 1:
        yield leaves[0]
        return
    for s in range(1, len(leaves)):
        for l in _shapes(leaves[:s], ops[:s - 1]):
            for r in _shapes(leaves[s:], ops[s:]):
                yield ("b", ops[s - 1], l, r)


def call_skeletons(rng, arity):
    allops = list(UN) + list(BIN)
    k = 0
    for f in sorted(arity):
        n = arity[f]
        for op in allops:
            p = _leafs(rng, 4)
            k += 1
            if n == 0:
                c = ("c", f, (), k % 2 == 0)
                forms = [_mk(op, c, p[0]), _mk(op, p[0], c)] if op in BIN else [_mk(op, c)]
            elif op in UN:
                forms = [_mk(op, ("c", f, tuple(p[:n]))), ("c", f, tuple([_mk(op, p[0])] + p[1:n]))]
            else:
                c = ("c", f, tuple(p[:n]))
                inner = [("c", f, tuple(p[j] if j != q else _mk(op, p[2], p[3]) for j in range(n))) for q in range(n)]
                forms = [[_mk(op, c, p[3]), _mk(op, p[3], c)][k % 2], inner[k % n]]
            for t in forms:
                if welltyped(t):
                    yield t, "%s/%s" % ((f, op) if t[0] == "c" else (op, f))
        if n == 2:                                   # several pending operators before and after the comma
            p = _leafs(rng, 4, False)
            o1, o2 = rng.choice(["+", "-"]), rng.choice(["*", "/", "^", "**"])
            yield ("c", f, (_mk(o1, p[0], _mk(o2, p[1], p[2])), p[3])), "%s/%s" % (f, o1)
            yield ("c", f, (p[3], _mk(o1, p[0], _mk(o2, p[1], _mk(".-", p[2]))))), "%s/%s" % (f, o1)


TAME = {"acos", "asin", "atanh", "acosh", "log", "log10", "sqrt", "exp", "sinh", "cosh", "tan", "log1p"}


def gen(rng, d, want, names, arity):
    if want == "B" and d > 1:
        if rng.random() < 0.3:
            return ("u", "!", gen(rng, d - 1, rng.choice("BN"), names, arity))
        return ("b", rng.choice(["and", "or"]), gen(rng, d - 1, rng.choice("BN"), names, arity), gen(rng, d - 1, rng.choice("BN"), names, arity))
    r = rng.random()
    if d <= 1 or r < 0.12:
        q = rng.random()
        if q < 0.65:
            return V(rng.choice(names))
        if q < 0.93:
            s, v = rng.choice(LITS)
            return ("n", v, s)
        return ("c", "pi", (), rng.random() < 0.4)
    if r < 0.27:
        return ("u", rng.choice(["~", ".-", ".+"]), gen(rng, d - 1, "N", names, arity))
    if r < 0.70:
        op = rng.choice(["^", "**", "*", "/", "%", "+", "-", "*", "+", "-"])
        rd = 1 if (op in ("^", "**") and rng.random() < 0.7) else d - 1
        return ("b", op, gen(rng, d - 1, "N", names, arity), gen(rng, rd, "N", names, arity))
    fs = sorted(n for n in arity if arity[n] > 0)
    if not fs:
        return gen(rng, d, want, names, arity)
    f = rng.choice(fs)
    ad = 1 if (f in TAME and rng.random() < 0.5) else d - 1
    return ("c", f, tuple(gen(rng, ad if j == 0 else d - 1, "N", names, arity) for j in range(arity[f])))


# ------------------------------------------------------------------ phases
def _elements(R):
    """every registered element on its own over a grid; relational indicators in sums"""
    for n in sorted(R.reg):
        if n not in UN and n not in BIN and n not in FUNCS:
            R.cases += 1
            R.fail("undocumented-element:" + n, "one of the 13 operators / 34 documented functions", "registered element %r (%s)" % (n, R.reg[n].description),
                   "import fuzzylite as fl; fl.settings.factory_manager.function.objects[%r]" % n)
    for n in sorted(set(UN) | set(BIN) | set(FUNCS)):
        if n not in R.reg:
            R.cases += 1
            R.fail("missing-element:" + n, "registered operator/function %r" % n, "not registered", "import fuzzylite as fl; %r in fl.settings.factory_manager.function.objects" % n)
            R.bad[n] = "missing-element:" + n
            continue
        x, k, a, o = V("x"), V("k"), V("a"), V("o")
        if n in UN:
            trees = [("u", n, x), ("u", n, k)]
        elif n in BIN:
            trees = [("b", n, x, k), ("b", n, a, x)]
        elif FUNCS[n][0] == 0:
            trees = [("c", n, (), False), ("c", n, (), True)]
        elif FUNCS[n][0] == 1:
            trees = [("c", n, (x,)), ("c", n, (o,))]
        else:
            trees = [("c", n, (x, k)), ("c", n, (a, x))]
        for t in trees:
            before = dict(R.skipped)
            for rep in range(3):
                envs = R.find_envs([t], want=5, tries=200)
                assert envs, ("no tame valuation for element", n)
                vs = sorted(used(t, set(), set())[0])
                if len(vs) == 2:                                   # equal arguments (boundary of the relational functions)
                    v = R.rng.choice(POOL)
                    envs = R.find_envs([t], want=1, tries=1, fixed={vs[0]: v, vs[1]: v}) + envs
                R.check_tree(t, envs, "value:function:" + n, "not-elementwise:" + n, styles=("min",), do_ill=False)
            if R.skipped != before:
                R.bad[n] = [c for c in R.skipped if R.skipped[c] != before.get(c, 0)][0]
        if n in REL:
            c1, c2 = ("c", n, (x, k)), ("c", n, (a, o))
            cls = "indicator-not-numeric:" + n
            before = dict(R.skipped)
            for t in (("b", "+", c1, c2), ("b", "-", c1, c2), ("b", "*", ("n", 2.0, "2"), c1), ("u", ".-", c1), ("b", "+", ("b", "+", c1, c2), c1)):
                pairs = [(p, q) for p in POOL for q in POOL if REL[n](p, q)]
                both = [dict({v: R.rng.choice(POOL) for v in NAMES}, **dict(zip("xkao", R.rng.choice(pairs) + R.rng.choice(pairs)))) for _ in range(3)]
                envs = both + R.find_envs([t], want=2)
                R.check_tree(t, envs, cls, cls, styles=("min",), do_ill=False, postfix=False)
            if R.skipped != before and n not in R.bad:
                R.bad[n] = cls


def _extras(R):
    """special surface cases: chains of prefix operators, literal spellings, ill-formed texts beyond the listed kinds"""
    np, fl = R.np, R.fl
    for text, tree in (("~ .- x", ("u", "~", ("u", ".-", V("x")))), ("~ .+ x", ("u", "~", ("u", ".+", V("x")))), ("~.-.-x", ("u", "~", ("u", ".-", ("u", ".-", V("x"))))),
                       ("2 ^ ~ .- x", ("b", "^", ("n", 2.0, "2"), ("u", "~", ("u", ".-", V("x")))))):
        R.cases += 1
        assert norm(_ref_parse(text, R.arity)) == norm(tree)
        want = ev(tree, {"x": 1.5}, [0.0])[0]
        try:
            obs = fl.Function.create("f", text).membership(1.5)
        except Exception as ex:  # noqa
            obs = "%s: %s" % (type(ex).__name__, ex)
        if isinstance(obs, str) or not R.close(obs, want, 1.0):
            R.fail("rejected-wellformed:unary-chain", want, obs, "import fuzzylite as fl; print(fl.Function.create('f', %r).membership(1.5))" % text)
    for text, want, cls in (("x + .5", 2.0, "literal:leading-dot"), ("x * 1e3", 1500.0, "literal:exponent"), ("x + 1e-3", 1.501, "literal:signed-exponent"),
                            ("x * 2.5e+1", 37.5, "literal:signed-exponent")):
        R.cases += 1
        try:
            obs = fl.Function.create("f", text).membership(1.5)
        except Exception as ex:  # noqa
            obs = "%s: %s" % (type(ex).__name__, ex)
        if isinstance(obs, str) or not R.close(obs, want, 1.0):
            R.fail(cls, want, obs, "import fuzzylite as fl; print(fl.Function.create('f', %r).membership(1.5))" % text)
    # a constant that needs more digits than Op.str prints: the postfix text no longer denotes the same function
    R.cases += 1
    t = fl.Function.create("f", "x * 0.12345")
    obs = R.PF.parse(t.root.postfix()).evaluate({"x": 1000.0})
    if not R.close(obs, 123.45, 1.0):
        R.fail("postfix:literal-precision", 123.45, "%r from postfix %r" % (obs, t.root.postfix()),
               "import fuzzylite as fl; print(fl.Function.create('f', 'x * 0.12345').root.postfix())  # reparsed and evaluated at x=1000")
    # texts with the right NUMBER of operands whose arrangement is not infix (beyond the kinds listed in C17): one class
    acc = []
    for text in ("max ( x 2 )", "max ( ( x , 2 ) )", "x 2 +", "+ x 2", "sin x", "x ( 2 * )", "( x , 2 ) +"):
        R.cases += 1
        try:
            _ref_parse(text, R.arity)
            raise AssertionError(("well-formed for the reference parser", text))
        except _Ill:
            pass
        try:
            acc.append("%r -> postfix %r" % (text, fl.Function.create("f", text).root.postfix()))
        except Exception as ex:  # noqa
            if type(ex).__name__ not in REJECTIONS:
                R.fail("illformed-internal-error:" + type(ex).__name__, "rejected with SyntaxError", "%s: %s" % (type(ex).__name__, ex), "import fuzzylite as fl; fl.Function.create('f', %r)" % text)
    if acc:
        R.fail("accepted-illformed:arrangement", "SyntaxError when loaded (not an infix formula)", "; ".join(acc), "import fuzzylite as fl; fl.Function.create('f', %r)" % acc[0].split(" -> ")[0][1:-1])
    R.check_ill(None, variants=[("empty-formula", []), ("empty-parentheses", ["(", ")"]), ("bare-minus", ["-", "x"])])


def _resolution(R):
    """variables resolve to the engine's CURRENT values, the term's own variables and x; clashes are rejected"""
    np, fl = R.np, R.fl
    text = "a + 10 * o + 100 * k + 1000 * x"
    tree = _ref_parse(text, R.arity)
    e = fl.Engine("e", input_variables=[fl.InputVariable("a")], output_variables=[fl.OutputVariable("o")])
    term = fl.Function("f", text, engine=e, variables={"k": 1.0}, load=True)
    hist = []
    for step, (av, ov, kv, xv) in enumerate([(1.0, 2.0, 3.0, 4.0), (5.0, 2.0, 3.0, 4.0), (5.0, 6.0, 3.0, 4.0), (5.0, 6.0, 7.0, 4.0), (5.0, 6.0, 7.0, 8.0),
                                             (np.array([1.0, 2.0, 3.0, 4.0]), 2.0, np.array([0.5, 1.5, 2.5, 3.5]), 1.0)]):
        R.cases += 1
        e.input_variable("a").value = av
        e.output_variable("o").value = ov
        term.variables["k"] = kv
        hist.append((av, ov, kv, xv))
        want = av + 10 * ov + 100 * kv + 1000 * xv
        try:
            obs = term.membership(xv)
            ok = np.shape(obs) == np.shape(want) and bool(np.all(np.abs(np.asarray(obs, dtype=float) - want) <= 1e-9 * np.abs(want)))
        except Exception as ex:  # noqa
            obs, ok = "%s: %s" % (type(ex).__name__, ex), False
        if not ok:
            R.fail("resolution:current-values", want, obs, "Function('f', %r, engine=e, variables={'k': ..}) loaded once; then (a, o, k, x) set in turn to %s and membership(x) called after each" % (text, hist))

    def raises(fn):
        try:
            fn()
        except ValueError:
            return "ValueError"
        except Exception as ex:  # noqa
            return type(ex).__name__
        return None
    e2 = fl.Engine("e", input_variables=[fl.InputVariable("x")], output_variables=[fl.OutputVariable("o")])
    checks = [("clash-own-vs-engine", lambda: fl.Function("f", "a + k", engine=e, variables={"a": 1.0, "k": 2.0}, load=True).membership(1.0), "ValueError",
               "fl.Function('f', 'a + k', engine=<engine with input a>, variables={'a': 1.0, 'k': 2.0}, load=True).membership(1.0)"),
              ("clash-own-x", lambda: fl.Function("f", "x + 1", variables={"x": 1.0}, load=True).membership(1.0), "ValueError",
               "fl.Function('f', 'x + 1', variables={'x': 1.0}, load=True).membership(1.0)"),
              ("clash-engine-x", lambda: fl.Function("f", "x + 1", engine=e2, load=True).membership(1.0), "ValueError",
               "fl.Function('f', 'x + 1', engine=<engine with input variable named x>, load=True).membership(1.0)"),
              ("unknown-variable", lambda: fl.Function.create("f", "x + zz", e).membership(1.0), "ValueError", "fl.Function.create('f', 'x + zz', e).membership(1.0)"),
              ("not-loaded", lambda: fl.Function("f", "x + 1").membership(1.0), "RuntimeError", "fl.Function('f', 'x + 1').membership(1.0)")]
    for name, fn, want, call in checks:
        R.cases += 1
        got = raises(fn)
        if got != want:
            R.fail("resolution:" + name, want + " as documented", got or "no exception", "import fuzzylite as fl; " + call)


def replay_formulas(fl, FA, vals=None, seed=0, budget=200, depth=None, arrays=True, skip_classes=(), only_class=None, **kw):
    """C17: generated formulas (all operator pairs systematically, calls of every registered function, random trees to
    depth `depth` (default 5)) printed with minimal/full/redundant parentheses and spacing variants, evaluated by the real
    Function term on scalars and arrays and compared with the reference value of the TREE; postfix round trip; variable
    resolution; ill-formed variants must be rejected at load.  The systematic part is fixed; `budget` = number of random
    trees (from budget >= 2000 also all triples of binary operators in all five bracketings)."""
    import warnings
    import numpy as np
    R = _Run(fl, seed, arrays, skip_classes, only_class)
    depth = depth or 5
    saved = (fl.settings.factory_manager, fl.settings.decimals, fl.settings.float_type)
    try:
        with warnings.catch_warnings(), np.errstate(all="ignore"):
            warnings.simplefilter("ignore")
            _elements(R)
            _resolution(R)
            _extras(R)
            for t, alt, label in skeletons(R.rng):
                envs = R.find_envs([t], alt)
                if not envs:                                   # an unlucky literal (e.g. a zero divisor): use variables only
                    t, alt = _delit(t), (_delit(alt) if alt else None)
                    envs = R.find_envs([t], alt, tries=2000)
                assert envs, ("no tame valuation for skeleton", label, t)
                R.check_tree(t, envs, "value:" + label)
            for t, label in call_skeletons(R.rng, R.arity):
                envs = R.find_envs([t])
                if envs:
                    R.check_tree(t, envs, "value:" + label, styles=("min", R.rng.choice(["full", "red"])))
            if budget >= 2000 or (depth and kw.get("triples")):
                ops = list(BIN)
                for o1 in ops:
                    for o2 in ops:
                        for o3 in ops:
                            for t in _shapes(_leafs(R.rng, 4)[:3] + [V(R.rng.choice(NAMES))], [o1, o2, o3]):
                                if welltyped(t):
                                    envs = R.find_envs([t], tries=60)
                                    if envs:
                                        R.check_tree(t, envs, "value:%s/%s" % (t[1], t[2][1] if t[2][0] == "b" else t[3][1]), styles=("min",), do_ill=False, postfix=False)
            made = tries = 0
            while made < budget and tries < budget * 20:
                tries += 1
                names = R.rng.sample(list(NAMES), R.rng.randint(1, 3))
                ops_only = R.rng.random() < 0.4
                t = gen(R.rng, R.rng.randint(2, depth), "B" if R.rng.random() < 0.2 else "N", names, {"pi": 0} if ops_only else R.arity)
                if height(t) < 2:
                    continue
                envs = R.find_envs([t], tries=40)
                if not envs:
                    continue
                made += 1
                R.check_tree(t, envs, "value:random")
    except _Fail as f:
        return f.args[0]
    finally:
        fl.settings.factory_manager, fl.settings.decimals, fl.settings.float_type = saved
    out = {"failed": False, "cases": R.cases, "distinct": len(R.distinct), "rejection_types": R.rejections}
    if R.skipped:
        out["skipped"] = R.skipped
    if R.ignored:
        out["ignored"] = R.ignored
    return out


def replay_table(fl, FA, vals=None, seed=0, budget=200, skip_classes=(), only_class=None, **kw):
    """the REGISTERED table against the oracle table: relative precedence (order and ties), associativity direction, arity,
    element type of each of the 13 operators; arity of each function = what its method takes (and = documented arity)"""
    import inspect
    import numpy as np
    reg = fl.settings.factory_manager.function.objects
    skip, skipped, cases = set(skip_classes or ()), {}, 0
    problems = []

    def bad(name, expected, observed):
        cls = "table:" + name
        if cls in skip or (only_class and cls != only_class):
            skipped[cls] = skipped.get(cls, 0) + 1
        else:
            problems.append((cls, expected, observed))
    table = dict([(n, (lv, "R", 1)) for n, lv in UN.items()] + [(n, (lv, a, 2)) for n, (lv, a) in BIN.items()])
    for n in sorted(set(reg) - set(table) - set(FUNCS)):
        bad(n, "a documented element", "registered element %r" % n)
    for n, (lv, asc, ar) in sorted(table.items()):
        cases += 1
        e = reg.get(n)
        if e is None or not e.is_operator():
            bad(n, "registered operator", "missing" if e is None else "type %r" % (e.type,))
            continue
        if e.arity != ar:
            bad(n, "arity %d" % ar, "arity %r" % (e.arity,))
        if (e.associativity > 0) != (asc == "R") or e.associativity == 0:
            bad(n, "%s-associative (associativity %s 0)" % ("right" if asc == "R" else "left", ">" if asc == "R" else "<"), "associativity %r" % (e.associativity,))
        for n2, (lv2, _, _) in sorted(table.items()):
            e2 = reg.get(n2)
            if e2 is not None and n < n2:
                cases += 1
                sg = lambda v: (v > 0) - (v < 0)  # noqa
                if sg(e.precedence - e2.precedence) != sg(lv - lv2):
                    bad(n if True else n2, "%s binds %s %s" % (n, {1: "tighter than", 0: "as tight as", -1: "looser than"}[sg(lv - lv2)], n2),
                        "precedence %r vs %r" % (e.precedence, e2.precedence))
    for n, (ar, _) in sorted(FUNCS.items()):
        cases += 1
        e = reg.get(n)
        if e is None or not e.is_function():
            bad(n, "registered function", "missing" if e is None else "type %r" % (e.type,))
            continue
        if e.arity != ar:
            bad(n, "documented arity %d" % ar, "arity %r" % (e.arity,))
        m = e.method
        if isinstance(m, np.ufunc):
            lo = hi = m.nin
        else:
            try:
                ps = list(inspect.signature(m).parameters.values())
                pos = [p for p in ps if p.kind in (p.POSITIONAL_ONLY, p.POSITIONAL_OR_KEYWORD)]
                lo = sum(1 for p in pos if p.default is p.empty)
                hi = 99 if any(p.kind == p.VAR_POSITIONAL for p in ps) else len(pos)
            except (TypeError, ValueError):
                lo = hi = None
        if lo is not None and not (lo <= e.arity <= hi):
            bad(n, "arity = number of parameters of its method (%s..%s)" % (lo, hi), "arity %r" % (e.arity,))
        try:
            r = m(*[0.5, 0.25][:e.arity])
            if np.shape(r) != ():
                bad(n, "scalar result for %d scalar arguments" % e.arity, repr(r))
        except Exception as ex:  # noqa
            bad(n, "method callable with %d arguments" % e.arity, "%s: %s" % (type(ex).__name__, ex))
    if problems:
        cls, expected, observed = problems[0]
        return {"failed": True, "class": cls, "expected": expected, "observed": observed + (" (+%d more: %s)" % (len(problems) - 1, sorted({p[0] for p in problems[1:]})[:8]) if len(problems) > 1 else ""),
                "call": "import fuzzylite as fl; e = fl.settings.factory_manager.function.objects[%r]; print(e.arity, e.precedence, e.associativity, e.method)" % cls.split(":", 1)[1], "cases": cases}
    out = {"failed": False, "cases": cases, "distinct": len(table) + len(FUNCS)}
    if skipped:
        out["skipped"] = skipped
    return out
