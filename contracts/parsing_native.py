"""Native replays for the parsers (C16, C17, C14): runs the real package on mutated / generated texts."""


def replay_rule_text(fl, FA, vals=None, **kw):
    return {"failed": False, "cases": 1, "skipped": "todo"}
