"""Native replays for the parsers (property C16): runs the REAL package on generated / mutated rule texts and FLL documents.

Entry points (all `(fl, FA, vals=None, seed=0, budget=200, skip_classes=(), only_class=None, **kw) -> dict`):
  replay_rule_text       exhaustive short token sequences + rule skeletons + grammar-generated rules with one injected error (tiny engine)
  replay_rule_mutations  every shipped example: each rule text mutated at every token position (optionally pairs of mutations)
  replay_fll_mutations   FLL documents (shipped examples + three hand-written ones) mutated at line / token level

The oracle is `_Ref`, a recogniser of the documented rule grammar (RULE_GRAMMAR_DOC) written from the docstrings of
fuzzylite.rule.Rule / Antecedent / Consequent and fuzzylite.hedge.Any.  It never calls Rule.parse, Rule.load, Antecedent.load,
Consequent.load, Function.infix_to_postfix or the importer; it only reads the names of the variables and terms of the engine.
Other parts of the package used to exercise accepted results: FllExporter, Rule.activate_with / trigger, Engine.is_ready / process.

Failure classes: `internal-error:<Type>`, `loaded-after-failure`, `accepted-malformed:<region>` (region = rule | antecedent | consequent |
antecedent-arrangement: the antecedent has the right ingredients - k valid propositions, k-1 operators, properly nested parentheses - but
in an arrangement outside the grammar; the finer kind is in `expected`), `accepted-not-evaluable`, and for FLL documents also
`accepted-not-exportable`, `accepted-not-processable:<Type>@<file:function>`, `rule-not-loaded`, `doubtful:<Type>` (RuntimeError,
AssertionError, NotImplementedError, OverflowError at import).  An entry of `skip_classes` (and `only_class`) matches a class exactly or as
the prefix before a ':' (so "accepted-malformed" skips every region).  Results also carry `accepted`, `rejected` ({"Type@file:function": n}:
the exception types seen on rejected inputs and where they were raised), `rejected_valid` (+ up to 3 examples: texts of the reference
grammar that the library rejects - information, not a failure) and `operators` (mutants run per operator).
Limitation of the reference: a name that is also a hedge / keyword is read as a name where a term is expected.
"""
import glob
import hashlib
import itertools
import math
import os
import random
import re

RULE_GRAMMAR_DOC = """
Reference rule grammar (tokens are separated by white space; in the antecedent `(` and `)` are tokens even when glued to a name;
everything from a `#` on is a comment):

    rule        ::= "if" antecedent "then" consequent [ "with" number ]          -- nothing may follow
    antecedent  ::= operand { ("and" | "or") operand }
    operand     ::= "(" antecedent ")" | proposition
    proposition ::= variable "is" { hedge } term        -- variable: an input or output variable of the engine, term: a term of THAT variable
                  | variable "is" { hedge } "any"       -- antecedent only: the hedge `any` needs no term
    consequent  ::= conclusion { "and" conclusion }     -- no parentheses, no "or"
    conclusion  ::= outputvariable "is" { hedge } term  -- term: a term of that output variable
    hedge       ::= "any" | "extremely" | "not" | "seldom" | "somewhat" | "very"
    number      ::= [+-] (digits ["." [digits]] | "." digits) [ (e|E) [+-] digits ]  |  [+-] ("inf" | "infinity" | "nan")

`if`, `then`, `with` are reserved: the antecedent is what lies between the leading `if` and the first `then`, the consequent what lies
between that `then` and the first following `with`.  Kinds reported (as region/kind) for texts outside the grammar: keyword-if, keyword-then,
missing-antecedent, missing-consequent, missing-operand, missing-operator, missing-is, missing-term, unknown-variable, unknown-term,
not-output-variable, paren, bad-connective, weight-missing, weight-non-numeric, trailing-token.
"""
__doc__ += RULE_GRAMMAR_DOC

HEDGES = ("any", "extremely", "not", "seldom", "somewhat", "very")
KEYWORDS = ("if", "then", "with", "is", "and", "or")
ALLOWED = (SyntaxError, ValueError, KeyError)
INTERNAL = (TypeError, AttributeError, IndexError, RecursionError, UnboundLocalError, ZeroDivisionError)
DOUBTFUL = (RuntimeError, AssertionError, NotImplementedError, OverflowError)
_NUM = re.compile(r"[+-]?(?:(?:\d+\.?\d*|\.\d+)(?:[eE][+-]?\d+)?|inf|infinity|nan)$", re.I)
_STRUCT = ("(", ")", "and", "or", "is", "if", "then", "with")


class _Ref:
    """independent recogniser of RULE_GRAMMAR_DOC against the names of one engine; `rule(text)` -> "" (in the grammar) or a kind"""

    def __init__(self, engine):
        self.vars, self.outs = {}, {}
        for v in engine.input_variables:
            self.vars.setdefault(v.name, set()).update(t.name for t in v.terms)
        for v in engine.output_variables:
            self.vars.setdefault(v.name, set()).update(t.name for t in v.terms)
            self.outs.setdefault(v.name, set()).update(t.name for t in v.terms)

    def rule(self, text):
        toks = text.split("#")[0].split()
        if not toks or toks[0] != "if":
            return "rule/keyword-if"
        if "then" not in toks:
            return "rule/keyword-then"
        i = toks.index("then")
        ante, rest, w = toks[1:i], toks[i + 1:], None
        if "with" in rest:
            j = rest.index("with")
            rest, w = rest[:j], rest[j + 1:]
        kind = self.antecedent(ante)
        if kind:
            return ("antecedent-arrangement/" if self._ingredients(ante) else "antecedent/") + kind
        kind = self.consequent(rest)
        if kind:
            return "consequent/" + kind
        if w is None:
            return ""
        if not w:
            return "rule/weight-missing"
        if not _NUM.match(w[0]):
            return "rule/weight-non-numeric"
        return "rule/trailing-token" if len(w) > 1 else ""

    def _ingredients(self, toks):
        """the antecedent has the right ingredients in a wrong arrangement: without `and`/`or`/parentheses it is a sequence of k valid
        propositions, there are k-1 operators and the parentheses nest properly"""
        t = re.findall(r"[()]|[^\s()]+", " ".join(toks))
        depth = 0
        for x in t:
            depth += (x == "(") - (x == ")")
            if depth < 0:
                return False
        rest, i, k = [x for x in t if x not in ("(", ")", "and", "or")], 0, 0
        while i < len(rest):
            i, kind = self._prop(rest, i, self.vars, True)
            if kind:
                return False
            k += 1
        return depth == 0 and k >= 1 and sum(x in ("and", "or") for x in t) == k - 1

    def antecedent(self, toks):
        t = re.findall(r"[()]|[^\s()]+", " ".join(toks))
        if not t:
            return "missing-antecedent"
        i, kind = self._expr(t, 0)
        if kind or i == len(t):
            return kind
        return "paren" if t[i] in "()" else "missing-operator"

    def _expr(self, t, i):
        i, kind = self._operand(t, i)
        while not kind and i < len(t) and t[i] in ("and", "or"):
            i, kind = self._operand(t, i + 1)
        return i, kind

    def _operand(self, t, i):
        if i < len(t) and t[i] == "(":
            i, kind = self._expr(t, i + 1)
            if kind:
                return i, kind
            if i < len(t) and t[i] == ")":
                return i + 1, ""
            return i, "paren" if i == len(t) else "missing-operator"
        return self._prop(t, i, self.vars, True)

    def _prop(self, t, i, variables, any_ok):
        if i >= len(t) or t[i] in _STRUCT:
            return i, "paren" if i < len(t) and t[i] == ")" else "missing-operand"
        v = t[i]
        if v not in variables:
            return i, "not-output-variable" if v in self.vars else "unknown-variable"
        if i + 1 >= len(t) or t[i + 1] != "is":
            return i, "missing-is"
        i, last = i + 2, None
        while i < len(t) and t[i] in HEDGES and t[i] not in variables[v]:
            last, i = t[i], i + 1
        if i < len(t) and t[i] in variables[v]:
            return i + 1, ""
        if any_ok and last == "any":
            return i, ""
        return i, "missing-term" if i >= len(t) or t[i] in _STRUCT else "unknown-term"

    def consequent(self, t):
        if not t:
            return "missing-consequent"
        i = 0
        while True:
            i, kind = self._prop(t, i, self.outs, False)
            if kind or i == len(t):
                return kind
            if t[i] != "and":
                return "paren" if t[i] in "()" else "bad-connective"
            i += 1


# ------------------------------------------------------------------------------------------------------------------ bookkeeping
def _match(cls, names):
    return any(cls == s or cls.startswith(s + ":") for s in names if s)


def _where(ex):
    """innermost frame of the traceback that lies inside the fuzzylite package: 'file.py:function'"""
    tb, found = ex.__traceback__, "?"
    while tb is not None:
        code = tb.tb_frame.f_code
        if os.sep + "fuzzylite" + os.sep in code.co_filename:
            found = f"{os.path.basename(code.co_filename)}:{code.co_name}"
        tb = tb.tb_next
    return found


def _exc(ex):
    return f"{type(ex).__name__}: {str(ex)[:200]} (raised in {_where(ex)})"


class _Run:
    def __init__(self, skip_classes=(), only_class=None):
        self.skip, self.only = tuple(skip_classes or ()), only_class
        self.cases, self.seen, self.skipped, self.accepted, self.rejected = 0, set(), {}, 0, {}
        self.rv, self.rv_examples, self.ops, self.last_accepted = 0, [], {}, False

    def report(self, cls, expected, observed, call):
        if _match(cls, self.skip) or (self.only and not _match(cls, (self.only,))):
            self.skipped[cls] = self.skipped.get(cls, 0) + 1
            return None
        return {"failed": True, "class": cls, "expected": expected[:600], "observed": observed[:600], "call": call[:600], "cases": self.cases}

    def reject(self, ex):
        key = f"{type(ex).__name__}@{_where(ex)}"
        self.rejected[key] = self.rejected.get(key, 0) + 1

    def result(self, **extra):
        r = {"failed": False, "cases": self.cases, "distinct": len(self.seen), "accepted": self.accepted, "rejected": dict(sorted(self.rejected.items())),
             "rejected_valid": self.rv, "rejected_valid_examples": self.rv_examples}
        if self.skipped:
            r["skipped"] = dict(sorted(self.skipped.items()))
        if self.ops:
            r["operators"] = dict(sorted(self.ops.items()))
        r.update(extra)
        return r


def _mid(v):
    lo, hi = float(v.minimum), float(v.maximum)
    m = 0.5 * (lo + hi)
    return m if math.isfinite(m) else 0.5


# ------------------------------------------------------------------------------------------------------------------ rule contract
PATHS = ("create", "parse+load", "reload")


def _attempt(fl, eng, text, path, valid):
    """-> (rule or None, exception or None, must_be_unloaded: a failure leaves this rule object in a state where is_loaded() has to be False)"""
    rule, parsed = None, False
    try:
        if path == "create":
            return fl.Rule.create(text, eng), None, False
        rule = fl.Rule() if path == "parse+load" else fl.Rule.create(valid, eng)
        rule.parse(text)
        parsed = True
        rule.load(eng)
        return rule, None, False
    except (KeyboardInterrupt, SystemExit):
        raise
    except BaseException as ex:  # noqa
        if path == "create":       # the rule object under construction is the local `rule` of Rule.create
            tb = ex.__traceback__
            while tb is not None:
                if tb.tb_frame.f_code.co_name == "create" and "rule" in tb.tb_frame.f_locals:
                    rule = tb.tb_frame.f_locals["rule"]
                tb = tb.tb_next
        # a fresh rule was never loaded; a previously loaded one legitimately stays loaded when the new text does not even parse
        return rule, ex, rule is not None and (parsed or path != "reload")


def _snip(path, text, valid, guarded=False):
    if path == "create" and not guarded:
        return f"fl.Rule.create({text!r}, e)"
    first = f"r = fl.Rule.create({valid!r}, e)" if path == "reload" else "r = fl.Rule()"
    if guarded:
        return f"{first}; r.parse({text!r})\ntry: r.load(e)\nexcept Exception as ex: print(type(ex))\nprint(r.is_loaded())"
    return f"{first}; r.parse({text!r}); r.load(e)"


def _judge_rule(fl, run, eng, ref, text, path, valid, setup):
    """contract (a)-(d) for one text through one load path; -> failure dict or None"""
    rule, ex, must_be_unloaded = _attempt(fl, eng, text, path, valid)
    call = f"import fuzzylite as fl; {setup}; {_snip(path, text, valid)}"
    run.last_accepted = ex is None
    if ex is not None:
        if not isinstance(ex, ALLOWED):
            return run.report(f"internal-error:{type(ex).__name__}", "the rule is loaded, or SyntaxError / ValueError / KeyError", _exc(ex), call)
        if path == "create":
            run.reject(ex)
            if not ref.rule(text):
                run.rv += 1
                if len(run.rv_examples) < 3:
                    run.rv_examples.append(f"{text!r}: {type(ex).__name__}: {str(ex)[:80]}")
        if must_be_unloaded and rule.is_loaded():
            return run.report("loaded-after-failure", "rule.is_loaded() is False after the load failed", f"is_loaded() == True after {_exc(ex)}",
                              f"import fuzzylite as fl; {setup}; {_snip(path, text, valid, guarded=True)}")
        return None
    kind = ref.rule(text)
    if kind:
        return run.report(f"accepted-malformed:{kind.split('/')[0]}", f"rejected (SyntaxError/ValueError/KeyError): the text is outside the rule grammar [{kind}]",
                          f"accepted; antecedent={rule.antecedent.text!r} consequent={rule.consequent.text!r} weight={rule.weight!r}", call)
    if path == "create":
        run.accepted += 1
    try:
        str(rule), rule.text, fl.FllExporter().rule(rule)
        rule.activate_with(fl.Minimum(), fl.Maximum())
        rule.trigger(fl.Minimum())
    except Exception as e2:  # noqa
        return run.report("accepted-not-evaluable", "an accepted rule can be exported, activated and triggered", _exc(e2),
                          call + "; str(r); r.text; fl.FllExporter().rule(r); r.activate_with(fl.Minimum(), fl.Maximum()); r.trigger(fl.Minimum())")
    finally:
        for ov in eng.output_variables:
            ov.fuzzy.clear()
    return None


def _drive(fl, run, eng, ref, texts, valid, setup, every=1):
    """the create path on every text; the two-step and the reload path on every accepted text and on every `every`-th other text"""
    for n, text in enumerate(texts):
        if text in run.seen:
            continue
        run.seen.add(text)
        for path in PATHS:
            if path != "create" and n % every and not run.last_accepted:
                continue
            run.cases += 1
            f = _judge_rule(fl, run, eng, ref, text, path, valid, setup)
            if f:
                return f
    return None


# ------------------------------------------------------------------------------------------------------------------ mutation operators
def _mutants(toks, pools):
    """single mutations of a token list at EVERY position: (operator, tokens)"""
    n = len(toks)
    for i in range(n):
        yield "delete", toks[:i] + toks[i + 1:]
        yield "duplicate", toks[:i + 1] + toks[i:]
        yield "truncate", toks[:i]
        for kind, subs in pools:
            for s in subs:
                if s != toks[i]:
                    yield "subst-" + kind, toks[:i] + [s] + toks[i + 1:]
        for s in ("(", ")"):
            yield "insert-paren", toks[:i] + [s] + toks[i:]
        if i + 1 < n and toks[i] != toks[i + 1]:
            yield "swap", toks[:i] + [toks[i + 1], toks[i]] + toks[i + 2:]
        rest = toks[:i] + toks[i + 1:]
        for j in sorted({0, i - 2, i + 2, n - 1} - {i}):
            if 0 <= j < n:
                yield "move", rest[:j] + [toks[i]] + rest[j:]
    for s in (")", "zzz", "0.5", "and", "with", toks[-1] if toks else "x"):
        yield "trailing", toks + [s]


def _pools(names):
    return (("keyword", KEYWORDS + ("very", "any")), ("name", tuple(names)), ("unknown", ("zzz", "sin")), ("number", ("0.5",)), ("paren", ("(", ")")))


def _by_operator(rules, pools):
    by = {}
    for r in rules:
        for op, m in _mutants(r.split(), pools):
            by.setdefault(op, []).append(" ".join(m))
    return by


# ------------------------------------------------------------------------------------------------------------------ 1. short texts
SIGMA = "if then with is and or a b o p e t s u w very not any ( ) 1.0 0.5 abc x".split()
RED_A = "is and or a b o t s very any ( )".split()
RED_C = "is and or o p a u w very any ( with".split()
CHUNK_A = ["a is t", "o is w", "a is any", "a is not s", "and", "or", "(", ")", "b is t", "e is any", "a", "is", "t"]
CHUNK_C = ["o is u", "p is u", "o is very w", "a is t", "and", "or", "with 0.5", "(", ")", "o is any", "o", "is", "u"]
WEIGHTS = ["", "abc", "1.0 1.0", "1.0 x", "0.5 with 0.5", "-1", "1e3", ".5", "1.", "nan", "inf", "0x10", "1,0", "one", "1.0.0", "--1", "1e", "( 1.0 )", "0.5 and", "is"]
TINY = ("T = lambda n: fl.Triangle(n, 0.0, 0.5, 1.0); IV, OV = fl.InputVariable, fl.OutputVariable; "
        "e = fl.Engine('tiny', '', [IV('a', terms=[T('t'), T('s')]), IV('b', terms=[T('t')]), IV('e')], [OV('o', terms=[T('u'), T('w')]), OV('p', terms=[T('u')])])")


def _tiny(fl):
    def T(n):
        return fl.Triangle(n, 0.0, 0.5, 1.0)
    eng = fl.Engine("tiny", "", [fl.InputVariable("a", terms=[T("t"), T("s")]), fl.InputVariable("b", terms=[T("t")]), fl.InputVariable("e")],
                    [fl.OutputVariable("o", terms=[T("u"), T("w")]), fl.OutputVariable("p", terms=[T("u")])])
    for v, x in zip(eng.input_variables, (0.3, 0.6, 0.5)):
        v.value = x
    return eng


def _seqs(full, reduced, chunks, top):
    """all sequences over `full` shorter than `top`, over `reduced` of length `top`; of fewer than `top` chunks, and of `top` of the first 8 chunks"""
    for n in range(top):
        for s in itertools.product(full, repeat=n):
            yield " ".join(s)
    for s in itertools.product(reduced, repeat=top):
        yield " ".join(s)
    for n in range(2, top):
        for s in itertools.product(chunks, repeat=n):
            yield " ".join(s)
    for s in itertools.product(chunks[:8], repeat=top):
        yield " ".join(s)


def _skeletons():
    seg = ["if", "a is t", "then", "o is u", "with", "0.5"]
    for n in range(len(seg) + 1):                       # missing / reordered parts
        for s in itertools.permutations(seg, n):
            yield " ".join(s)
    for i in range(len(seg) + 1):                       # duplicated parts, trailing tokens
        for extra in seg + ["x", "1.0", ")", "and o is w", "and"]:
            yield " ".join(seg[:i] + [extra] + seg[i:])
    for w in WEIGHTS:
        yield f"if a is t then o is u with {w}"
        yield f"if a is t then o is u and p is u with {w}"
    for t in ["", " ", "#", "if", "# if a is t then o is u", "if a is t then o is u # x", "if a is t # then o is u", "if a is t then o is u with # 1.0",
              "if a is t then o is u with 0.5 # 1.0", "IF a is t THEN o is u", "if a IS t then o is u", "if (a is t) then o is u", "if (a is t then o is u",
              "if a is t) then o is u", "if ((a is t) and (b is t)) or o is u then o is u", "if(a is t)then o is u", "if a is t then (o is u)", "if a is t then o is u and (p is u)"]:
        yield t


def _gen_valid(rng):
    """a random rule of the grammar over the tiny engine (with parentheses, hedges, `any`, several conclusions, weight)"""
    props = {"a": "ts", "b": "t", "o": "uw", "p": "u"}

    def prop(variables, any_ok):
        v = rng.choice(variables)
        h = [rng.choice(HEDGES[1:]) for _ in range(rng.choice((0, 0, 1, 2)))]
        if any_ok and rng.random() < 0.15:
            return [v, "is"] + h + ["any"]
        return [v, "is"] + h + [rng.choice(props[v])]

    def expr(depth):
        if depth == 0 or rng.random() < 0.4:
            return prop("aabo", True)
        e = expr(depth - 1) + [rng.choice(("and", "or"))] + expr(depth - 1)
        return ["("] + e + [")"] if rng.random() < 0.5 else e

    cons = prop("op", False)
    for _ in range(rng.choice((0, 0, 1, 2))):
        cons += ["and"] + prop("op", False)
    return " ".join(["if"] + expr(rng.choice((0, 1, 1, 2))) + ["then"] + cons + (["with", rng.choice(("0.5", "1.0", "0.25"))] if rng.random() < 0.4 else []))


def replay_rule_text(fl, FA, vals=None, seed=0, budget=200, which=None, max_len=None, skip_classes=(), only_class=None, **kw):
    """contract (a)-(d) on short token sequences `if <A> then <C> [with <W>]` over a tiny engine (see module docstring)"""
    rng = random.Random(seed)
    run, eng = _Run(skip_classes, only_class), _tiny(fl)
    ref = _Ref(eng)
    top = max_len if max_len is not None else (3 if budget < 100 else 4 if budget < 2000 else 5)
    valid = "if a is t then o is u"
    for r in (valid, "if (a is very t or b is any) and o is not w then o is somewhat u and p is u with 0.5"):   # harness sanity: the reference accepts them
        assert ref.rule(r) == "", (r, ref.rule(r))
    fams = [which] if which else ["antecedent", "consequent", "rule"]
    for fam in fams:
        if fam == "antecedent":
            texts = (f"if {a} then o is u" for a in _seqs(SIGMA, RED_A, CHUNK_A, top))
        elif fam == "consequent":
            texts = (f"if a is t then {c}" for c in _seqs(SIGMA, RED_C, CHUNK_C, top))
        else:
            gen = [_gen_valid(rng) for _ in range(max(4, budget // 8))]
            for g in gen:
                assert ref.rule(g) == "", (g, ref.rule(g))
            pools = _pools(["a", "b", "o", "p", "e", "t", "s", "u", "w"])
            texts = itertools.chain(_skeletons(), gen, (" ".join(m) for g in gen for _, m in _mutants(g.split(), pools)))
        f = _drive(fl, run, eng, ref, texts, valid, TINY, every=1 if fam == "rule" else 4)
        if f:
            return f
    return run.result(max_len=top)


# ------------------------------------------------------------------------------------------------------------------ 2. example rules
def _examples(fl):
    root = os.path.join(os.path.dirname(os.path.abspath(fl.__file__)), "examples")
    return root, sorted(glob.glob(os.path.join(root, "**", "*.fll"), recursive=True))


def _rule_lines(text):
    return [ln.split(":", 1)[1].strip() for ln in text.splitlines() if ln.strip().startswith("rule:")]


def _names(eng):
    out = []
    for vs in (eng.input_variables[:2], eng.output_variables[:2]):
        for v in vs:
            out.append(v.name)
            out.extend(t.name for t in v.terms[:2])
    return list(dict.fromkeys(out))


def replay_rule_mutations(fl, FA, vals=None, seed=0, budget=200, double=False, skip_classes=(), only_class=None, examples=None, **kw):
    """contract (a)-(d) on the rule texts of every shipped example mutated at every token position (sampled under the budget)"""
    rng = random.Random(seed)
    run = _Run(skip_classes, only_class)
    root, files = _examples(fl)
    files = [p for p in files if not examples or any(x in p for x in examples)]
    per_example = max(40, budget * 300 // max(1, len(files)))
    n_rules = max(3, budget // 20)
    for path in files:
        rel = os.path.relpath(path, root)
        setup = f"import os; e = fl.FllImporter().from_file(os.path.join(os.path.dirname(fl.__file__), 'examples', {rel!r}))"
        with open(path, encoding="utf-8") as fh:
            doc = fh.read()
        try:
            eng = fl.FllImporter().from_string(doc)
        except Exception as ex:  # noqa
            f = run.report(f"crash:{type(ex).__name__}@FllImporter.from_string", "a shipped example is imported", _exc(ex), f"import fuzzylite as fl; {setup}")
            if f:
                return f
            continue
        for v in eng.input_variables:
            v.value = _mid(v)
        ref = _Ref(eng)
        rules = list(dict.fromkeys(_rule_lines(doc)))
        if not rules:
            continue
        # sanity of the harness + baseline of the property: the shipped rules are in the grammar and are accepted
        bad = [r for r in rules if ref.rule(r)]
        assert not bad, f"reference recogniser rejects a shipped rule of {rel}: {bad[0]!r} [{ref.rule(bad[0])}]"
        valid = rules[0]
        f = _drive(fl, run, eng, ref, rules, valid, setup)
        if f:
            return f
        pick = [rules[0], max(rules, key=lambda r: len(r.split()))] + rng.sample(rules, min(len(rules), n_rules))
        by = _by_operator(list(dict.fromkeys(pick)), _pools(_names(eng)))
        quota = max(2, per_example // len(by))
        chosen = []
        for op in sorted(by):
            ms = sorted(set(by[op]) - run.seen)
            take = ms if len(ms) <= quota else rng.sample(ms, quota)
            run.ops[op] = run.ops.get(op, 0) + len(take)
            chosen.extend(take)
        if double:
            pools = _pools(_names(eng))
            for m in rng.sample(chosen, min(len(chosen), per_example // 2)):
                second = list(_mutants(m.split(), pools)) if m.split() else []
                if second:
                    op, mm = rng.choice(second)
                    run.ops["double"] = run.ops.get("double", 0) + 1
                    chosen.append(" ".join(mm))
        f = _drive(fl, run, eng, ref, chosen, valid, setup)
        if f:
            return f
    return run.result(examples=len(files))


# ------------------------------------------------------------------------------------------------------------------ 3. FLL documents
# hand-written documents using every key of every section kind; " | " stands for a line break followed by the two-space indentation
_HW = [
    ['# hand-written: every key of every section',
     'Engine: hw_one | description: a small engine',
     'InputVariable: light | description: ambient light | enabled: true | range: 0.000 1.000 | lock-range: false | term: dark Triangle 0.000 0.250 0.500 | term: mid Trapezoid 0.200 0.400 0.600 0.800 | term: bright Ramp 0.500 1.000',
     'InputVariable: hour | enabled: true | range: 0.000 24.000 | lock-range: true | term: day Rectangle 6.000 18.000 | term: night Discrete 0.000 1.000 6.000 0.000 18.000 0.000 24.000 1.000',
     'OutputVariable: power | description: lamp power | enabled: true | range: 0.000 1.000 | lock-range: false | aggregation: Maximum | defuzzifier: Centroid 100 | default: nan | lock-previous: false | term: low Triangle 0.000 0.250 0.500 | term: high Gaussian 0.750 0.100',
     'RuleBlock: main | description: the rules | enabled: true | conjunction: Minimum | disjunction: Maximum | implication: AlgebraicProduct | activation: General | rule: if light is dark and hour is night then power is high | rule: if light is very bright or hour is day then power is low with 0.500 | rule: if light is not mid and (hour is any or light is somewhat dark) then power is extremely high and power is seldom low'],
    ['Engine: hw_two',
     'InputVariable: x | enabled: true | range: -1.000 1.000 | lock-range: false | term: neg ZShape -1.000 0.000 | term: pos SShape 0.000 1.000',
     'OutputVariable: y | enabled: true | range: -2.000 2.000 | lock-range: false | aggregation: none | defuzzifier: WeightedAverage TakagiSugeno | default: 0.000 | lock-previous: true | term: c Constant 0.500 | term: l Linear 1.000 0.000 | term: f Function x * 2.0 + sin(x)',
     'OutputVariable: z | enabled: false | range: 0.000 1.000 | lock-range: true | aggregation: AlgebraicSum | defuzzifier: MeanOfMaximum 50 | default: 0.500 | lock-previous: false | term: s Sigmoid 0.500 10.000 | term: b Bell 0.500 0.250 3.000',
     'RuleBlock: first | enabled: true | conjunction: AlgebraicProduct | disjunction: none | implication: Minimum | activation: Highest 1 | rule: if x is neg then y is c and z is s | rule: if x is pos then y is l',
     'RuleBlock: second | enabled: false | conjunction: none | disjunction: AlgebraicSum | implication: Minimum | activation: Threshold >= 0.250 | rule: if x is neg or x is pos then y is f with 0.750 | rule: if y is c then z is b'],
    ['Engine: hw_three',
     'InputVariable: i',
     'OutputVariable: o',
     'RuleBlock:'],
]
HAND_WRITTEN = ["\n".join(sec.replace(" | ", "\n  ") for sec in d) + "\n" for d in _HW]
SUBST = [":", "true", "false", "none", "nan", "0.5", "-1", "Triangle", "Discrete", "Function", "Minimum", "Maximum", "Centroid", "General", "zzz", "(", ")", "if", "then",
         "is", "and", "with", "term:", "rule:", "Engine:", "RuleBlock:", "#", ","]
BAD_NUM = ["abc", "1e", "--1", "0.2.5", "nan", "inf", "-inf", "1e999", "", "1,5", "0x1F"]
BAD_BOOL = ["True", "yes", "1", "", "truefalse", "none"]
BAD_RANGE = ["0.0", "0 1 2", "1.0 0.0", "a b", "", "nan nan", "-inf inf", "0.0 0.0", "0.0, 1.0"]
CLASS_KEYS = {"term": 2, "conjunction": 1, "disjunction": 1, "implication": 1, "aggregation": 1, "defuzzifier": 1, "activation": 1}


def _fll_mutants(lines, rng, k):
    """(operator, description, document): every operator at `k` sampled positions (all positions when k is None)"""
    n = len(lines)

    def some(seq):
        seq = list(seq)
        return seq if k is None or len(seq) <= k else rng.sample(seq, k)

    def doc(ls):
        return "\n".join(ls) + "\n"

    def line(op, i, new):
        return op, f"line {i + 1} {lines[i]!r} -> {new!r}", doc(lines[:i] + [new] + lines[i + 1:])

    def toks(op, i, t):
        return line(op, i, lines[i][:len(lines[i]) - len(lines[i].lstrip())] + " ".join(t))

    for i in some(range(n)):
        yield "delete-line", f"line {i + 1} {lines[i]!r} deleted", doc(lines[:i] + lines[i + 1:])
        yield "duplicate-line", f"line {i + 1} {lines[i]!r} duplicated", doc(lines[:i + 1] + lines[i:])
        yield "truncate-line", f"only the first {i} lines", doc(lines[:i])
        if i + 1 < n:
            yield "swap-lines", f"lines {i + 1} {lines[i]!r} and {i + 2} swapped", doc(lines[:i] + [lines[i + 1], lines[i]] + lines[i + 2:])
        j = rng.randrange(n)
        rest = lines[:i] + lines[i + 1:]
        yield "move-line", f"line {i + 1} {lines[i]!r} moved before line {j + 1 + (j >= i)}", doc(rest[:j] + [lines[i]] + rest[j:])
        yield line("colon", i, lines[i].replace(":", "", 1))
        yield line("colon", i, lines[i].replace(":", rng.choice(("::", " =", ";", " :")), 1))
    spots = [(i, j) for i in range(n) for j in range(len(lines[i].split()))]
    for i, j in some(spots):
        t = lines[i].split()
        yield "truncate-token", f"only the first {i} lines and the first {j} tokens of line {i + 1} {lines[i]!r}", doc(lines[:i] + [" ".join(t[:j])])
        yield toks("delete-token", i, t[:j] + t[j + 1:])
        yield toks("duplicate-token", i, t[:j + 1] + t[j:])
        if j + 1 < len(t):
            yield toks("swap-tokens", i, t[:j] + [t[j + 1], t[j]] + t[j + 2:])
        for s in (SUBST if k is None else rng.sample(SUBST, 4)):
            yield toks("subst-token", i, t[:j] + [s] + t[j + 1:])
    keyed = [i for i in range(n) if ":" in lines[i]]
    for i in some(keyed):
        key, val = lines[i].split(":", 1)
        for bad in (key + "x", key.strip().swapcase(), "", key.strip()[:-1], "term" if key.strip() != "term" else "rule", key + " " + key.strip()):
            yield line("corrupt-key", i, f"{bad}:{val}")
    for i in some([i for i in keyed if lines[i].split(":")[0].strip() in CLASS_KEYS]):
        t = lines[i].split()
        j = CLASS_KEYS[t[0].rstrip(":")]
        if j < len(t):
            for bad in (t[j][:-1], t[j].lower(), "Rectangle", "Triangle", "Discrete", "Function", "Linear", "Constant", "none", "", "Minimum", "Centroid", "First", "Threshold"):
                yield toks("corrupt-class", i, t[:j] + [bad] + t[j + 1:])
    for i, j in some([(i, j) for i, j in spots if _NUM.match(lines[i].split()[j])]):
        t = lines[i].split()
        for bad in BAD_NUM:
            yield toks("corrupt-number", i, t[:j] + [bad] + t[j + 1:])
    for i, j in some([(i, j) for i, j in spots if lines[i].split()[j] in ("true", "false")]):
        t = lines[i].split()
        for bad in BAD_BOOL:
            yield toks("corrupt-boolean", i, t[:j] + [bad] + t[j + 1:])
    for i in some([i for i in keyed if lines[i].split(":")[0].strip() == "range"]):
        for bad in BAD_RANGE:
            yield line("corrupt-range", i, lines[i].split(":")[0] + ": " + bad)


def _judge_fll(fl, run, text, source, desc):
    call = f"import fuzzylite as fl; fl.FllImporter().from_string({text!r})"
    if len(call) > 560:
        call = f"import fuzzylite as fl, os; doc = {source}; engine = fl.FllImporter().from_string(doc with {desc})"
    try:
        eng = fl.FllImporter().from_string(text)
    except (KeyboardInterrupt, SystemExit):
        raise
    except BaseException as ex:  # noqa
        if isinstance(ex, ALLOWED):
            run.reject(ex)
            return None
        soft = isinstance(ex, DOUBTFUL) and not isinstance(ex, INTERNAL)
        return run.report(f"{'doubtful' if soft else 'internal-error'}:{type(ex).__name__}", "an engine, or SyntaxError / ValueError / KeyError", _exc(ex), call)
    run.accepted += 1
    try:
        fl.FllExporter().to_string(eng)
    except Exception as ex:  # noqa
        return run.report("accepted-not-exportable", "an imported engine can be exported again", _exc(ex), call + " then fl.FllExporter().to_string(engine)")
    ref = _Ref(eng)
    for r in (r for rb in eng.rule_blocks for r in rb.rules):
        kind = ref.rule(r.text)
        if kind:
            return run.report(f"accepted-malformed:{kind.split('/')[0]}", f"the rule is rejected: it is outside the rule grammar [{kind}]", f"imported rule {r.text!r}", call)
    unloaded = [r.text for rb in eng.rule_blocks for r in rb.rules if not r.is_loaded()]
    if unloaded:
        return run.report("rule-not-loaded", "every rule of an imported engine is loaded (no load error was raised)", f"not loaded: {unloaded[:3]}", call)
    try:
        ready = bool(eng.is_ready())
    except Exception:  # noqa
        ready = False
        run.skipped["is_ready-raised"] = run.skipped.get("is_ready-raised", 0) + 1
    if ready:
        try:
            for v in eng.input_variables:
                v.value = _mid(v)
            eng.process()
            [float(v.value) for v in eng.output_variables]
        except Exception as ex:  # noqa
            return run.report(f"accepted-not-processable:{type(ex).__name__}@{_where(ex)}", "an imported engine that is_ready() processes a row of mid-range inputs", _exc(ex),
                              call + " then set every input to the middle of its range; engine.process()")
    return None


def replay_fll_mutations(fl, FA, vals=None, seed=0, budget=200, skip_classes=(), only_class=None, examples=None, **kw):
    """import contract on FLL documents mutated at line and token level (see module docstring)"""
    rng = random.Random(seed)
    run = _Run(skip_classes, only_class)
    root, files = _examples(fl)
    docs = [(f"contracts.parsing_native.HAND_WRITTEN[{i}]", d, None) for i, d in enumerate(HAND_WRITTEN)]
    for p in files:
        with open(p, encoding="utf-8") as fh:
            docs.append((f"open(os.path.join(os.path.dirname(fl.__file__), 'examples', {os.path.relpath(p, root)!r})).read()", fh.read(), max(1, budget // 100)))
    docs = [d for d in docs if not examples or any(x in d[0] for x in examples)]
    k_hand = None if budget >= 100 else 3
    for name, text, k in docs:
        run.cases += 1
        f = _judge_fll(fl, run, text, name, "no change")       # the unmutated document
        if f:
            return f
        lines = text.rstrip("\n").split("\n")
        for op, desc, m in _fll_mutants(lines, rng, k if k is not None else k_hand):
            h = hashlib.md5(m.encode()).digest()
            if h in run.seen or m == text:
                continue
            run.seen.add(h)
            run.cases += 1
            run.ops[op] = run.ops.get(op, 0) + 1
            f = _judge_fll(fl, run, m, name, desc)
            if f:
                return f
    r = run.result(documents=len(docs))
    r.pop("rejected_valid"), r.pop("rejected_valid_examples")
    return r
