"""Sidecar contracts for fuzzylite.norm (property C04).  Oracles = DESIGN Appendix A.1, transcribed from the class
docstrings and the property statement -- never from the method bodies.  Written against the spec algebra `A`
(pyvc.xreal.SymAlg symbolically, pyvc.falg.FloatAlg concretely)."""

MODULE = "norm"


def _c(A, v):
    return A.c(v)


def algebraic_product(A, a, b): return A.mul(a, b)
def bounded_difference(A, a, b): return A.maximum(_c(A, 0.0), A.sub(A.add(a, b), _c(A, 1.0)))
def drastic_product(A, a, b): return A.ite(A.eq(A.maximum(a, b), _c(A, 1.0)), A.minimum(a, b), _c(A, 0.0))
def einstein_product(A, a, b): return A.div(A.mul(a, b), A.sub(_c(A, 2.0), A.sub(A.add(a, b), A.mul(a, b))))
def hamacher_product(A, a, b):
    return A.ite(A.and_(A.eq(a, _c(A, 0.0)), A.eq(b, _c(A, 0.0))), _c(A, 0.0), A.div(A.mul(a, b), A.sub(A.add(a, b), A.mul(a, b))))
def minimum(A, a, b): return A.minimum(a, b)
def nilpotent_minimum(A, a, b): return A.ite(A.gt(A.add(a, b), _c(A, 1.0)), A.minimum(a, b), _c(A, 0.0))

def algebraic_sum(A, a, b): return A.sub(A.add(a, b), A.mul(a, b))
def bounded_sum(A, a, b): return A.minimum(_c(A, 1.0), A.add(a, b))
def drastic_sum(A, a, b): return A.ite(A.eq(A.minimum(a, b), _c(A, 0.0)), A.maximum(a, b), _c(A, 1.0))
def einstein_sum(A, a, b): return A.div(A.add(a, b), A.add(_c(A, 1.0), A.mul(a, b)))
def hamacher_sum(A, a, b):
    return A.ite(A.and_(A.eq(a, _c(A, 1.0)), A.eq(b, _c(A, 1.0))), _c(A, 1.0),
                 A.div(A.sub(A.add(a, b), A.mul(_c(A, 2.0), A.mul(a, b))), A.sub(_c(A, 1.0), A.mul(a, b))))
def maximum(A, a, b): return A.maximum(a, b)
# the docstring prints `a+b<0`; the property's duality law S(a,b)=1-T(1-a,1-b) fixes the intended `a+b<1`
def nilpotent_maximum(A, a, b): return A.ite(A.lt(A.add(a, b), _c(A, 1.0)), A.maximum(a, b), _c(A, 1.0))
def normalized_sum(A, a, b): return A.div(A.add(a, b), A.maximum(_c(A, 1.0), A.add(a, b)))
def unbounded_sum(A, a, b): return A.add(a, b)


TNORMS = {
    "AlgebraicProduct": algebraic_product, "BoundedDifference": bounded_difference, "DrasticProduct": drastic_product,
    "EinsteinProduct": einstein_product, "HamacherProduct": hamacher_product, "Minimum": minimum,
    "NilpotentMinimum": nilpotent_minimum,
}
SNORMS = {
    "AlgebraicSum": algebraic_sum, "BoundedSum": bounded_sum, "DrasticSum": drastic_sum, "EinsteinSum": einstein_sum,
    "HamacherSum": hamacher_sum, "Maximum": maximum, "NilpotentMaximum": nilpotent_maximum,
    "NormalizedSum": normalized_sum, "UnboundedSum": unbounded_sum,
}
ALL = dict(TNORMS, **SNORMS)
DUAL = {  # S-norm -> its same-family T-norm
    "AlgebraicSum": "AlgebraicProduct", "BoundedSum": "BoundedDifference", "DrasticSum": "DrasticProduct",
    "EinsteinSum": "EinsteinProduct", "HamacherSum": "HamacherProduct", "Maximum": "Minimum",
    "NilpotentMaximum": "NilpotentMinimum",
}
BOUNDED_SNORMS = [n for n in SNORMS if n != "UnboundedSum"]
# the property: bounded S-norms are associative "except NormalizedSum" (no claim is made for it)
ASSOC_SNORMS = [n for n in BOUNDED_SNORMS if n != "NormalizedSum"]


def unit(A, *xs):
    """precondition of every clause: operands are doubles in [0,1]"""
    return A.and_(*[A.and_(A.ge(x, A.c(0.0)), A.le(x, A.c(1.0))) for x in xs])


# ---------------------------------------------------------------- native replay (runs under /venv/bin/python)
def _mk(fl, name):
    return getattr(fl, name)()


def replay(fl, FA, clause, norm, vals):
    """evaluate the failed clause on the real code; returns dict(failed, expected, observed)"""
    import numpy as np
    a, b, c = (np.float64(vals.get(k, 0.0)) for k in ("a", "b", "c"))
    n = _mk(fl, norm)
    T = lambda u, v: np.float64(n.compute(u, v))
    close = lambda u, v: FA.same(u, v)
    if not FA.and_(0 <= a <= 1, 0 <= b <= 1, 0 <= c <= 1):
        return {"failed": False, "skipped": "operands outside [0,1]"}
    if clause == "formula":
        # the documented closed form, evaluated in doubles, or - where that evaluation is itself ill-conditioned (HamacherSum next to a*b = 1) - exactly, as a
        # real number at the given doubles (exact rationals): the code must agree with one of the two
        from pyvc.falg import QA
        exp, obs = ALL[norm](FA, a, b), T(a, b)
        exact = ALL[norm](QA, QA.c(a), QA.c(b))
        ok = close(exp, obs) or (exact is not None and FA.same(float(exact), obs, rel=1e-9, abs_=1e-12))
        return {"failed": not ok, "expected": float(exp) if exact is None else sorted({float(exp), float(exact)}), "observed": float(obs), "call": f"{norm}().compute({a!r}, {b!r})"}
    if clause == "range":
        obs = T(a, b)
        ok = (obs == a + b) if norm == "UnboundedSum" else bool(0 <= obs <= 1)
        return {"failed": not ok, "expected": "in [0,1]", "observed": float(obs), "call": f"{norm}().compute({a!r}, {b!r})"}
    O = lambda u, v: np.float64(ALL[norm](FA, np.float64(u), np.float64(v)))          # the documented formula evaluated in doubles
    if clause == "comm":
        # exact: every documented formula is symmetric in its operands operation by operation, so its value in doubles is too
        x1, x2 = T(a, b), T(b, a)
        return {"failed": not (x1 == x2 or (x1 != x1 and x2 != x2)), "expected": float(x2), "observed": float(x1), "call": f"{norm}: T(a,b) vs T(b,a) (exactly) a={a!r} b={b!r}"}
    if clause == "mono":
        lo, hi = min(a, c), max(a, c)
        ok = T(lo, b) <= T(hi, b) + 1e-12
        return {"failed": not ok, "expected": "T(lo,b) <= T(hi,b)", "observed": [float(T(lo, b)), float(T(hi, b))], "call": f"{norm}: lo={lo!r} hi={hi!r} b={b!r}"}
    if clause == "assoc":
        l, r = T(T(a, b), c), T(a, T(b, c))
        return {"failed": not FA.same(l, r, rel=1e-9, abs_=1e-9), "expected": float(r), "observed": float(l), "call": f"{norm}: a={a!r} b={b!r} c={c!r}"}
    # the laws below hold for the real-valued formula; in doubles they hold up to rounding - EXACTLY at every point where the documented formula evaluated in
    # doubles satisfies them exactly (the code claims to compute that formula), within 1e-12 elsewhere
    if clause == "identity":
        e = 1.0 if norm in TNORMS else 0.0
        exact = O(a, e) == a and O(e, a) == a
        ok = (T(a, e) == a and T(e, a) == a) if exact else (close(T(a, e), a) and close(T(e, a), a))
        return {"failed": not ok, "expected": float(a), "observed": [float(T(a, e)), float(T(e, a))], "call": f"{norm}: a={a!r} e={e}" + (" (exactly: the documented formula gives a in doubles)" if exact else "")}
    if clause == "annihilator":
        z = 0.0 if norm in TNORMS else 1.0
        exact = O(a, z) == z and O(z, a) == z
        ok = (T(a, z) == z and T(z, a) == z) if exact else (close(T(a, z), z) and close(T(z, a), z))
        return {"failed": not ok, "expected": z, "observed": [float(T(a, z)), float(T(z, a))], "call": f"{norm}: a={a!r} z={z}" + (" (exactly: the documented formula gives it in doubles)" if exact else "")}
    if clause == "bound":
        obs, orc = T(a, b), O(a, b)
        if norm in TNORMS:
            exact = orc <= min(a, b)
            ok = obs <= min(a, b) if exact else obs <= min(a, b) + 1e-12
        else:
            exact = orc >= max(a, b)
            ok = obs >= max(a, b) if exact else obs >= max(a, b) - 1e-12
        return {"failed": not ok, "expected": ("<= min(a,b)" if norm in TNORMS else ">= max(a,b)") + (" exactly (the documented formula in doubles satisfies it)" if exact else " within 1e-12"), "observed": float(obs),
                "call": f"{norm}: a={a!r} b={b!r}"}
    if clause == "dual":
        if 1.0 - (1.0 - a) != a or 1.0 - (1.0 - b) != b:
            return {"failed": False, "skipped": "the complement 1 - x of an operand is not exact in doubles (x < 0.5 in general): the duality is a statement about exact complements"}
        t = _mk(fl, DUAL[norm])
        exp = 1.0 - np.float64(t.compute(1.0 - a, 1.0 - b))
        obs = T(a, b)
        return {"failed": not FA.same(exp, obs, rel=1e-9, abs_=1e-9), "expected": float(exp), "observed": float(obs), "call": f"{norm} vs 1-{DUAL[norm]}(1-a,1-b): a={a!r} b={b!r}"}
    if clause == "elementwise":
        arr = np.array([a, b, c, 0.0, 1.0, 0.5])
        arr2 = np.array([b, c, a, 1.0, 0.0, 0.5])
        keep, keep2 = arr.copy(), arr2.copy()
        try:
            got = np.asarray(n.compute(arr, arr2), dtype=float)
            exp = np.array([T(u, v) for u, v in zip(keep, keep2)])
            ok = got.shape == exp.shape and all(FA.same(u, v) for u, v in zip(got, exp))
            if not (np.array_equal(arr, keep) and np.array_equal(arr2, keep2)):
                return {"failed": True, "expected": "operands unchanged", "observed": [arr.tolist(), arr2.tolist()], "call": f"{norm}().compute(array, array) modified its operands"}
            # broadcasting: scalar x array, array x scalar, column x row (the shapes Activated.membership uses)
            for u, v, what in [(np.float64(keep[0]), keep2, "scalar,array"), (keep, np.float64(keep2[0]), "array,scalar"), (keep.reshape(-1, 1), keep2.reshape(1, -1), "column,row")]:
                g = np.asarray(n.compute(u, v), dtype=float)
                e_ = np.vectorize(lambda p_, q_: float(T(p_, q_)))(*np.broadcast_arrays(u, v))
                if g.shape != e_.shape or not all(FA.same(x1, x2) for x1, x2 in zip(g.ravel(), e_.ravel())):
                    return {"failed": True, "expected": e_.tolist(), "observed": g.tolist(), "call": f"{norm}().compute({what})"}
            return {"failed": not ok, "expected": exp.tolist(), "observed": got.tolist(), "call": f"{norm}().compute(array, array)"}
        except Exception as ex:  # noqa
            return {"failed": True, "expected": "element-wise result", "observed": f"{type(ex).__name__}: {ex}", "call": f"{norm}().compute(array, array)"}
    if clause == "all":      # directed native search used when the body leaves the verified subset: every clause on a special-value grid
        grid = [0.0, 1.0, 0.5, 0.25, 0.75, 0.1, 0.9, 1e-300, 1e-17, 2.0 ** -53, 1.0 - 2.0 ** -53, 1.0 - 2.0 ** -10, 2.0 ** -10, 0.999, 0.4995, 0.5005]
        clauses = ["formula", "range"] + ([] if norm == "UnboundedSum" else ["comm", "identity", "annihilator", "bound"]) + (["dual"] if norm in DUAL else [])
        for u in grid:
            for v in grid:
                for cl in clauses:
                    r = replay(fl, FA, cl, norm, {"a": u, "b": v, "c": 0.5})
                    if r.get("failed"):
                        return r
        return replay(fl, FA, "elementwise", norm, {"a": 0.3, "b": 0.6, "c": 1.0})
    if clause == "sampled":
        # random doubles, the exact dyadic grid k/64, and complement pairs (x, 1 - x) - the arguments at which a + b rounds to exactly 1 - with every
        # clause of the property; then the "all" grid and the array forms
        import random
        rng = random.Random(int(vals.get("seed", 0)))
        n_ = int(vals.get("n", 300))
        pts = []
        for _ in range(n_):
            x = rng.random() if rng.random() < 0.5 else rng.randrange(0, 101) / 100.0
            pts.append((x, 1.0 - x)); pts.append((1.0 - x, x))
            pts.append((rng.random(), rng.random()))
            pts.append((rng.randrange(0, 65) / 64.0, rng.randrange(0, 65) / 64.0))
        clauses = ["formula", "range"] + ([] if norm == "UnboundedSum" else ["comm", "bound", "mono"]) + (["dual"] if norm in DUAL else [])
        if norm != "UnboundedSum":
            for _ in range(n_):      # identity and annihilator at random doubles and on the grid
                x = rng.random() if rng.random() < 0.5 else rng.randrange(0, 65) / 64.0
                for cl in ("identity", "annihilator", "bound"):
                    for (u, v) in ((x, 1.0), (1.0, x), (x, 0.0), (0.0, x)):
                        r = replay(fl, FA, cl, norm, {"a": u, "b": v, "c": 0.5})
                        if r.get("failed"):
                            return r
        for (u, v) in pts:
            for cl in clauses:
                r = replay(fl, FA, cl, norm, {"a": u, "b": v, "c": rng.random()})
                if r.get("failed"):
                    return r
        r = replay(fl, FA, "all", norm, {})
        return r if r.get("failed") else {"failed": False, "cases": len(pts) * len(clauses) + 256}
    raise KeyError(clause)
