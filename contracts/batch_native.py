"""Native bounded stand-ins (label B, never counted as proved) for C18, C09 and C02.  Runs the REAL package under /venv/bin/python.

  replay_increment  C18  Op.increment is the mixed-radix successor (last position fastest), False exactly on wrap-around
  replay_fld        C18  FldExporter: header, grid size, grid order, coordinates, outputs, text format, reader export
  replay_integral   C09  Bisector / Centroid / SmallestOfMaximum / MeanOfMaximum / LargestOfMaximum on sampled fuzzy sets
  replay_batch      C02  per-variable arrays (mode B) and engine-level matrix (mode C) against row-by-row floats (mode A)

Oracles are written from the property statements.  Lower-level parts of the package that are NOT the subject of the respective
property are used as building blocks and said so in the docstrings (FllImporter to build engines, Term.membership / Norm.compute on
plain floats, Engine.process on plain floats as the reference of C18 and C02).  Every entry point accepts `skip_classes=(...)`
(a class `c` is skipped by the entry `c`, by any prefix `p` with `c` starting with `p + ":"`, or by an fnmatch pattern with `*`) and `only_class=...`.
"""
import copy
import fnmatch
import itertools
import math
import os
import random
import re

NAN = float("nan")
INF = float("inf")
_CRASHED = object()
_PRE = "import fuzzylite as fl, os, io, sys, numpy as np; sys.path.insert(0, '/verif'); from contracts.batch_native import fld_fll, gen_fll; "


class _Stop(Exception):
    def __init__(self, result):
        self.result = result


def _short(x, n=590):
    s = x if isinstance(x, str) else repr(x)
    return s if len(s) <= n else s[: n - 15] + " ...<truncated>"


class _Run:
    def __init__(self, skip_classes, only_class):
        self.skip = tuple(skip_classes or ())
        self.only = only_class
        self.cases = self.distinct = 0
        self.skipped, self.detail, self.stats, self.extra = {}, {}, {}, None

    @staticmethod
    def _m(cls, pat):
        return cls == pat or cls.startswith(pat + ":") or ("*" in pat and fnmatch.fnmatchcase(cls, pat))

    def fail(self, cls, expected, observed, call, detail=None, extra=None):
        if any(self._m(cls, s) for s in self.skip) or (self.only and not self._m(cls, self.only)):
            self.skipped[cls] = self.skipped.get(cls, 0) + 1
            if detail is not None:
                self.detail.setdefault(cls, []).append(detail)
            return
        raise _Stop({"failed": True, "class": cls, "expected": _short(expected), "observed": _short(observed),
                     "call": _short(_PRE + call, 1200), "cases": self.cases, **(extra or self.extra or {})})

    def lib(self, where, call, fn, *a, **k):
        """call into the package where the property promises a result: an exception is a failing case of its own class"""
        try:
            return fn(*a, **k)
        except Exception as ex:  # noqa
            self.fail(f"crash:{type(ex).__name__}@{where}", "no exception", f"{type(ex).__name__}: {ex}", call)
            return _CRASHED

    def done(self):
        r = {"failed": False, "cases": self.cases, "distinct": self.distinct}
        if self.skipped:
            r["skipped"] = dict(self.skipped)
        if self.detail:
            r["skipped_detail"] = self.detail
        if self.stats:
            r["stats"] = self.stats
        return r


def _entry(body):
    def run(fl, FA, vals=None, seed=0, budget=200, skip_classes=(), only_class=None, **kw):
        import warnings
        import numpy as np
        R = _Run(skip_classes, only_class)
        saved = fl.settings.decimals
        try:
            with warnings.catch_warnings(), np.errstate(all="ignore"):
                warnings.simplefilter("ignore")
                body(fl, R, random.Random(seed), max(1, int(budget)), seed=seed, **kw)
            return R.done()
        except _Stop as s:
            if R.skipped:
                s.result["skipped"] = dict(R.skipped)
            return s.result
        finally:
            fl.settings.decimals = saved
    run.__doc__ = body.__doc__
    run.__name__ = body.__name__.lstrip("_")
    return run


def _f(x):
    """the single float held by a float / 0-d / 1-element array (anything else is a harness-visible shape error)"""
    import numpy as np
    a = np.asarray(x, dtype=float)
    if a.size != 1:
        raise ValueError(f"expected one value, got shape {a.shape}")
    return float(a.reshape(-1)[0])


def _same(a, b):
    return a == b or (a != a and b != b)


# ---------------------------------------------------------------------------------------------------------- C18: Op.increment
def _increment(fl, R, rng, budget, seed=0, **kw):
    """Op.increment(x, minimum, maximum[, position]): x[:position+1] read as a mixed-radix number (digit i in
    minimum[i]..maximum[i], last digit fastest) is replaced by its successor modulo the number of states, digits after `position`
    are untouched, the result is False exactly when it wrapped around.  Oracle: conversion to an integer, +1, conversion back.
    Exhaustive for 0..4 digits x radices 1..4 x every state x every position."""
    for L in range(0, 5):
        for sizes in itertools.product(range(1, 5), repeat=L):
            for mn in ([0] * L, [(-1) ** i * (i + 1) for i in range(L)]):
                mx = [a + s - 1 for a, s in zip(mn, sizes)]
                R.distinct += 1
                for state in itertools.product(*[range(a, b + 1) for a, b in zip(mn, mx)]):
                    for pos in [None] + list(range(L)):
                        R.cases += 1
                        p = L - 1 if pos is None else pos
                        num = tot = 0
                        if L:
                            tot = 1
                            for i in range(p + 1):
                                num = num * sizes[i] + (state[i] - mn[i]); tot *= sizes[i]
                        nxt, want = (num + 1) % tot if L else 0, list(state)
                        for i in range(p, -1, -1):
                            want[i] = mn[i] + nxt % sizes[i]; nxt //= sizes[i]
                        wrapped = (not L) or num + 1 == tot
                        x, a, b = list(state), list(mn), list(mx)
                        call = f"x={list(state)}; fl.Op.increment(x, {mn}, {mx}" + ("" if pos is None else f", {pos}") + "); x"
                        got = R.lib("Op.increment", call, (lambda: fl.Op.increment(x, a, b) if pos is None else fl.Op.increment(x, a, b, pos)))
                        if got is _CRASHED:
                            continue
                        if bool(got) != (not wrapped):
                            R.fail("increment-return", f"returns {not wrapped}", f"returns {got}, x={x}", call)
                        elif x != want:
                            R.fail("increment-wrap-state" if wrapped else "increment-value", want, x, call)
                        if a != mn or b != mx:
                            R.fail("increment-value", "minimum/maximum untouched", (a, b), call)


replay_increment = _entry(_increment)


# ---------------------------------------------------------------------------------------------------------------- C18: FLD
_IN_RANGES = [(-1.0, 2.0), (0.0, 10.0), (5.0, 5.5), (-3.0, -1.0)]


def fld_fll(n, kind, lock_previous=False):
    """small generated engines with n inputs: 'mamdani' (2 outputs, integral defuzzifiers) or 'ts' (Constant/Linear, WeightedAverage)"""
    s = [f"Engine: g{n}{kind}"]
    for i in range(n):
        lo, hi = _IN_RANGES[i]
        s += [f"InputVariable: x{i}", f"  range: {lo} {hi}", f"  term: lo Ramp {hi} {lo}", f"  term: hi Ramp {lo} {hi}", f"  term: mid Triangle {lo} {(lo + hi) / 2} {hi}"]
    lp = "true" if lock_previous else "false"
    if kind == "mamdani":
        for nm, d in (("y", "Centroid 40"), ("z", "LargestOfMaximum 25")):
            s += [f"OutputVariable: {nm}", "  range: 0 4", "  aggregation: Maximum", f"  defuzzifier: {d}", f"  lock-previous: {lp}",
                  "  term: a Triangle 0 1 2", "  term: b Trapezoid 1 2 2.5 3", "  term: c Triangle 2 3 4"]
    else:
        coef = " ".join(str(0.5 * (i + 1) * (-1) ** i) for i in range(n)) + " 0.25"
        s += ["OutputVariable: y", "  range: -100 100", "  defuzzifier: WeightedAverage", f"  lock-previous: {lp}",
              "  term: a Constant 1.5", f"  term: b Linear {coef}", "  term: c Constant -2"]
    s += ["RuleBlock:", "  conjunction: AlgebraicProduct", "  disjunction: Maximum", "  implication: " + ("Minimum" if kind == "mamdani" else "none"), "  activation: General"]
    outs = ["y", "z"] if kind == "mamdani" else ["y"]
    for i in range(n):
        o = outs[i % len(outs)]
        s += [f"  rule: if x{i} is lo then {o} is a", f"  rule: if x{i} is hi then {o} is b"]
    s += [f"  rule: if x0 is mid and x{n - 1} is not lo then " + " and ".join(f"{o} is c" for o in outs) + " with 0.5"]
    if lock_previous:   # an engine whose output is undefined (NaN) on part of the grid, so that the held value matters
        s = [ln for ln in s if " is lo then" not in ln]
    return "\n".join(s) + "\n"


_SHIPPED_FLD = ["mamdani/simple_dimmer", "mamdani/matlab/mam22", "hybrid/tipper", "takagi_sugeno/approximation", "tsukamoto/tsukamoto",
                "takagi_sugeno/matlab/sltbu_fl", "takagi_sugeno/matlab/slbb", "mamdani/laundry"]


def _example(fl, rel):
    return fl.FllImporter().from_file(os.path.join(os.path.dirname(fl.__file__), "examples", rel + ".fll"))


def _example_src(rel):
    return f"e = fl.FllImporter().from_file(os.path.join(os.path.dirname(fl.__file__), 'examples/{rel}.fll'))"


def _const_engine(fl, n):
    ivs = [fl.InputVariable(name=f"x{i}", minimum=_IN_RANGES[i][0], maximum=_IN_RANGES[i][1], terms=[]) for i in range(n)]
    return fl.Engine(name="const", input_variables=ivs, output_variables=[], rule_blocks=[])


def _root(v, n):
    """largest k with k**n <= v (v >= 1), by integer arithmetic"""
    k = 1
    while (k + 1) ** n <= v:
        k += 1
    return k


def _grid(ranges, counts, alt=False):
    """the grid of the statement: per input `c` equidistant values from minimum to maximum inclusive, lexicographic, last input fastest.
    `alt`: the same coordinates with the step rounded first (min + d * step); the two readings differ by an ulp at most"""
    coords = [[(lo + d * ((hi - lo) / max(1, c - 1))) if alt else (lo + d * (hi - lo) / max(1, c - 1)) for d in range(c)] for (lo, hi), c in zip(ranges, counts)]
    return [list(r) for r in itertools.product(*coords)]


def _float_rows(R, engine, rows, call):
    """reference tabulation: a fresh copy of the engine, restarted, processed one row at a time with plain floats (Engine.process
    on floats is not the subject of C18)"""
    e = copy.deepcopy(engine)
    e.restart()
    out = []
    for row in rows:
        for iv, v in zip(e.input_variables, row):
            iv.value = float(v)
        if R.lib("Engine.process(float row)", call + f"  # reference row {row}", e.process) is _CRASHED:
            return _CRASHED
        out.append([_f(ov.value) for ov in e.output_variables])
    return out


def _tok_ok(tok, x, d):
    if tok == f"{x:.{d}f}":
        return True
    try:
        t = float(tok)
    except ValueError:
        return False
    if t != t or x != x or math.isinf(t) or math.isinf(x):
        return _same(t, x)
    return abs(t - x) <= 0.5 * 10.0 ** -d * (1 + 1e-9) + 1e-12 * max(1.0, abs(x))


def _judge_table(R, text, engine, sw, d, exp_in, call, rowcls, reader=False, v=None, alt_in=None):
    """judge an exported dataset against the expected input rows `exp_in`; sw = (separator, headers, inputs, outputs)"""
    sep, headers, inputs, outputs = sw
    n, m = len(engine.input_variables), len(engine.output_variables)
    lines = text.split("\n")
    if lines and lines[-1] == "":
        lines.pop()
    want_h = sep.join(([v.name for v in engine.input_variables] if inputs else []) + ([v.name for v in engine.output_variables] if outputs else []))
    if headers:
        if not lines or lines[0] != want_h:
            R.fail("fld-header", want_h, lines[0] if lines else "<empty>", call)
            return
        lines = lines[1:]
    elif lines and lines[0] == want_h:
        R.fail("fld-header", "no header line", lines[0], call)
        return
    if len(lines) != len(exp_in):
        R.fail(rowcls, f"{len(exp_in)} rows", f"{len(lines)} rows", call, detail=[n, v, len(lines), len(exp_in)])
        return
    ncol = (n if inputs else 0) + (m if outputs else 0)
    pat = re.compile(r"-?\d+" + (rf"\.\d{{{d}}}" if d > 0 else "") + r"$|nan$|-?inf$")
    toks = [ln.split(sep) for ln in lines]
    for i, t in enumerate(toks):
        if len(t) != ncol or not all(pat.match(c) for c in t):
            R.fail("fld-format", f"{ncol} columns with {d} decimals separated by {sep!r}", f"row {i}: {lines[i]!r}", call)
            return
    if inputs:
        bad = [i for i, t in enumerate(toks) if not all(_tok_ok(c, x, d) for c, x in zip(t[:n], exp_in[i]))]
        if bad:
            got = sorted(tuple(float(c) for c in t[:n]) for t in toks)
            want = sorted(tuple(float(f"{x:.{d}f}") for x in r) for r in exp_in)
            perm = all(all(_tok_ok(f"{g:.{d}f}", w, d) for g, w in zip(gr, wr)) for gr, wr in zip(got, want))
            i = bad[0]
            R.fail("fld-reader" if reader else ("fld-order" if perm else "fld-coordinates"),
                   f"row {i} inputs {[f'{x:.{d}f}' for x in exp_in[i]]}", f"row {i}: {lines[i]!r}", call)
            return
    if outputs and m:
        exp_out = _float_rows(R, engine, exp_in, call)
        if exp_out is _CRASHED:
            return
        alt_out = None
        for i, t in enumerate(toks):
            if not all(_tok_ok(c, x, d) for c, x in zip(t[ncol - m:], exp_out[i])):
                if alt_in is not None and alt_out is None:   # an output that jumps within one ulp of a grid coordinate
                    alt_out = _float_rows(R, engine, alt_in, call)
                if alt_out not in (None, _CRASHED) and all(_tok_ok(c, x, d) for c, x in zip(t[ncol - m:], alt_out[i])):
                    continue
                R.fail("fld-outputs", f"row {i} (inputs {exp_in[i]}) outputs {[f'{x:.{d}f}' for x in exp_out[i]]}", f"row {i}: {lines[i]!r}", call)
                return


def _fld(fl, R, rng, budget, seed=0, sizes=None, **kw):
    """FldExporter against the statement of C18.  Header = names of the selected (switches input_values / output_values) variables
    joined by the separator, absent when headers=False; EachVariable = v: v values per input; AllVariables = v: k values per input, k the
    largest integer with k**n <= v, n = ALL input variables of the engine (ScopeOfValues docstring: "I refers to the input variables");
    rows in lexicographic order, last input fastest; each row = inputs as held by the input variables + the outputs of a restarted deep
    copy of the engine processed row by row with plain floats (the reference; Engine.process on floats is not the subject), printed with
    settings.decimals decimals (text compared; a token that differs must still be a correct rounding within 1e-12 of the reference).
    Reader export: the first `skip_lines` raw lines are skipped, then blank lines and lines starting with `#`; inputs = first n columns.
    kw `sizes=[...]` restricts the requested sizes v.  Classes: fld-rowcount:n=<n>, fld-order, fld-coordinates, fld-outputs, fld-header,
    fld-format, fld-reader[:empty], fld-active, crash:<Type>@<function>; skipped fld-rowcount cases are listed in `skipped_detail` as
    [n, v, observed rows, expected rows]."""
    import io
    import numpy as np
    S = fl.FldExporter.ScopeOfValues
    fl.settings.decimals = 6
    # (1) grid SIZE, all v = 1..2000, AllVariables.  n = 1: the full export of a constant engine (no outputs): rows = v.
    #     n = 2..4: only the first input is active (documented `active_variables`: "input variables to set values for"), so the
    #     number of rows is the number k of values per input; the full k**n grids follow in (2).
    ex = fl.FldExporter(headers=False, output_values=False)
    allv = list(sizes) if sizes else list(range(1, 2001))
    for n in (2, 3, 4, 1):
        e = _const_engine(fl, n)
        vs = allv if (n > 1 or budget >= 200 or sizes) else sorted(set(allv[:: max(1, 200 // budget)] + allv[:64]))
        for v in vs:
            R.cases += 1
            k = _root(v, n)
            act = None if n == 1 else {e.input_variables[0]}
            call = (f"e = fl.Engine('c', input_variables=[fl.InputVariable(f'x{{i}}', minimum=0, maximum=1) for i in range({n})]); "
                    f"fl.FldExporter(headers=False, output_values=False).to_string_from_scope(e, {v}, fl.FldExporter.ScopeOfValues.AllVariables"
                    + ("" if n == 1 else ", {e.input_variables[0]}") + f").count('\\n')  # values per input, expected {k}")
            text = R.lib("FldExporter.to_string_from_scope", call, ex.to_string_from_scope, e, v, S.AllVariables, act)
            if text is _CRASHED:
                continue
            rows = text.count("\n")
            if rows != k:
                R.fail(f"fld-rowcount:n={n}", f"{k} values per input ({k ** n} rows) for all variables = {v}",
                       f"{rows} values per input ({rows ** n} rows)", call, detail=[n, v, rows ** n, k ** n])
    R.distinct += len(allv) * 4
    # (2) grid size, ORDER and COORDINATES of the complete grid on constant engines: AllVariables at the boundaries k**n-1, k**n,
    #     k**n+1 and at random v; EachVariable for a sample of v
    jobs = []
    for n in (1, 2, 3, 4):
        vs = set()
        for k in range(1, 2001):
            if k ** n > 2001:
                break
            vs |= {k ** n - 1, k ** n, k ** n + 1}
        vs = sorted(v for v in vs if 1 <= v <= 2000)
        if n == 1:
            vs = [1, 2, 3, 4, 5, 7, 10, 33, 100, 1000, 2000]
        vs += [rng.randint(1, 2000) for _ in range(4)]
        jobs += [(n, "AllVariables", v) for v in (sizes or vs)]
        each = {1: [1, 2, 3, 5, 10, 100, 1000, 2000, rng.randint(1, 2000)], 2: [1, 2, 3, 7, 31, rng.randint(1, 44)], 3: [1, 2, 3, 5, rng.randint(1, 12)], 4: [1, 2, 3, rng.randint(1, 6)]}[n]
        jobs += [(n, "EachVariable", v) for v in each]
    stride = max(1, 200 // budget)
    for n, scope, v in jobs[::stride]:
        R.cases += 1; R.distinct += 1
        e = _const_engine(fl, n)
        c = _root(v, n) if scope == "AllVariables" else v
        exp = _grid(_IN_RANGES[:n], [c] * n)
        call = (f"e = fl.Engine('c', input_variables=[fl.InputVariable(f'x{{i}}', minimum=lo, maximum=hi) for i, (lo, hi) in enumerate({_IN_RANGES[:n]})]); "
                f"fl.settings.decimals = 6; fl.FldExporter(headers=False, output_values=False).to_string_from_scope(e, {v}, fl.FldExporter.ScopeOfValues.{scope})")
        text = R.lib("FldExporter.to_string_from_scope", call, ex.to_string_from_scope, e, v, S[scope])
        if text is not _CRASHED:
            _judge_table(R, text, e, (" ", False, True, False), 6, exp, call, f"fld-rowcount:n={n}", v=v)
    # (2b) documented `active_variables`: the grid runs over the active inputs only (k still from ALL inputs), the others keep their value
    for n, act, v in ((2, (1,), 50), (3, (0, 2), 30), (3, (1,), 999), (4, (3, 0), 700)):
        R.cases += 1; R.distinct += 1
        e = _const_engine(fl, n)
        held = [0.25 * (i + 1) + _IN_RANGES[i][0] for i in range(n)]
        for iv, x in zip(e.input_variables, held):
            iv.value = x
        c = _root(v, n)
        sub = iter(_grid([_IN_RANGES[i] for i in sorted(act)], [c] * len(act)))
        exp = [[row[sorted(act).index(i)] if i in act else held[i] for i in range(n)] for row in sub]
        call = (f"e = fl.Engine('c', input_variables=[fl.InputVariable(f'x{{i}}', minimum=lo, maximum=hi) for i, (lo, hi) in enumerate({_IN_RANGES[:n]})]); "
                f"[setattr(iv, 'value', x) for iv, x in zip(e.input_variables, {held})]; fl.settings.decimals = 6; fl.FldExporter(headers=False, output_values=False)"
                f".to_string_from_scope(e, {v}, fl.FldExporter.ScopeOfValues.AllVariables, {{e.input_variables[i] for i in {act}}})")
        text = R.lib("FldExporter.to_string_from_scope", call, ex.to_string_from_scope, e, v, S.AllVariables, {e.input_variables[i] for i in act})
        if text is not _CRASHED:
            _judge_table(R, text, e, (" ", False, True, False), 6, exp, call, "fld-active", v=v)
    # (2c) a DESCENDING range (minimum > maximum, e.g. `range: 0.000 -40.000`): the grid still runs from minimum to maximum inclusive
    for v, scope in ((5, "EachVariable"), (2, "EachVariable"), (9, "AllVariables")):
        R.cases += 1; R.distinct += 1
        rngs = [(10.0, -10.0), (0.0, 1.0)]
        e = fl.Engine(name="desc", input_variables=[fl.InputVariable(name=f"x{i}", minimum=lo, maximum=hi, terms=[]) for i, (lo, hi) in enumerate(rngs)], output_variables=[], rule_blocks=[])
        c = v if scope == "EachVariable" else _root(v, 2)
        exp = _grid(rngs, [c, c])
        call = (f"e = fl.Engine('desc', input_variables=[fl.InputVariable(f'x{{i}}', minimum=lo, maximum=hi) for i, (lo, hi) in enumerate({rngs})]); "
                f"fl.settings.decimals = 6; fl.FldExporter(headers=False, output_values=False).to_string_from_scope(e, {v}, fl.FldExporter.ScopeOfValues.{scope})")
        text = R.lib("FldExporter.to_string_from_scope", call, ex.to_string_from_scope, e, v, S[scope])
        if text is not _CRASHED:
            _judge_table(R, text, e, (" ", False, True, False), 6, exp, call, "fld-coordinates", v=v)
    # (2d) FORMAT of given values: FldExporter.write prints the input values it is given with exactly `decimals` decimals - the decimal rounding of the double
    # itself ("%0.<d>f"), also where the double sits next to a decimal half-way point (0.05, 0.15, 2.5, 0.125, 0.005)
    e1 = fl.Engine(name="fmt", input_variables=[fl.InputVariable(name="x0", minimum=-10.0, maximum=10.0, terms=[])], output_variables=[], rule_blocks=[])
    xs_ = [0.05, 0.15, 0.25, 0.35, 0.45, 0.55, 0.65, 0.75, 0.85, 0.95, 0.125, 0.375, 2.5, 3.5, -0.5, -1.5, 0.005, 0.015, 0.025, 0.045, 1.005, 2.675, 1e-7, 7.0, -0.0004]
    for d in (0, 1, 2, 3):
        R.cases += 1; R.distinct += 1
        fl.settings.decimals = d
        w = io.StringIO()
        call = f"fl.settings.decimals = {d}; w = io.StringIO(); fl.FldExporter(headers=False, output_values=False).write(<engine with one input, range [-10, 10]>, w, np.array({xs_}).reshape(-1, 1)); w.getvalue()"
        r_ = R.lib("FldExporter.write", call, fl.FldExporter(headers=False, output_values=False).write, e1, w, np.array(xs_).reshape(-1, 1))
        if r_ is not _CRASHED:
            got = w.getvalue().split()
            want = [f"%0.{d}f" % x for x in xs_]
            if got != want:
                k_ = next((i for i, (a, b) in enumerate(zip(got, want)) if a != b), min(len(got), len(want)))
                R.fail("fld-format:exact", f"{want[k_] if k_ < len(want) else '<end>'} for the input value {xs_[k_] if k_ < len(xs_) else None!r} at decimals={d} (all: {want})", f"{got[k_] if k_ < len(got) else '<end>'} (all: {got})", call)
    fl.settings.decimals = 6
    # (3) complete comparison (header, switches, separator, decimals, outputs) on engines with 1-4 inputs, both scopes + reader
    engines = []
    for n in (1, 2, 3, 4):
        for kind in ("mamdani", "ts"):
            lock = (n == 2 and kind == "ts") or (n == 1 and kind == "mamdani")
            fll = fld_fll(n, kind, lock)
            engines.append((f"e = fl.FllImporter().from_string(fld_fll({n}, {kind!r}, {lock}))", fl.FllImporter().from_string(fll)))
    for rel in _SHIPPED_FLD:
        engines.append((_example_src(rel), _example(fl, rel)))
    n_exports = max(4, budget * 3 // 4)
    for j in range(n_exports):
        src, e = engines[j % len(engines)] if j < 2 * len(engines) else rng.choice(engines)
        n = len(e.input_variables)
        sep = rng.choice([" ", " ", ",", ";", "\t", " | ", "::"])
        d = rng.choice([3, 3, 0, 1, 2, 6, 9])
        headers, inputs, outputs = rng.choice([(True, True, True)] * 3 + [(False, True, True), (True, False, True), (True, True, False), (False, False, True), (False, True, False)])
        early = (j // 3) % 2 == 1      # the exporter object exists before the decimals are configured: the dataset is printed with the decimals in force when it is exported
        fl.settings.decimals = (d + 2) % 7 if early else d
        exporter = fl.FldExporter(separator=sep, headers=headers, input_values=inputs, output_values=outputs)
        fl.settings.decimals = d
        ranges = [(iv.minimum, iv.maximum) for iv in e.input_variables]
        R.cases += 1; R.distinct += 1
        mode = j % 3
        cfg = (f"fl.settings.decimals = {(d + 2) % 7}; x = fl.FldExporter(separator={sep!r}, headers={headers}, input_values={inputs}, output_values={outputs}); fl.settings.decimals = {d}; " if early else
               f"fl.settings.decimals = {d}; x = fl.FldExporter(separator={sep!r}, headers={headers}, input_values={inputs}, output_values={outputs}); ")
        if mode < 2:
            scope = "EachVariable" if mode == 0 else "AllVariables"
            cap = int(round(90 ** (1.0 / n)))
            if scope == "EachVariable":
                v = rng.randint(1, max(2, cap)); c = v
            else:
                v = rng.choice([rng.randint(1, 130), rng.randint(1, 130), 64, 81, 100, 16, 27, 1]); c = _root(v, n)
            if sizes:
                v = rng.choice(list(sizes)); c = v if scope == "EachVariable" else _root(v, n)
                if c ** n > 3000:
                    continue
            exp = _grid(ranges, [c] * n)
            call = f"{src}; {cfg}x.to_string_from_scope(e, {v}, fl.FldExporter.ScopeOfValues.{scope})"
            fn = exporter.to_string_from_scope if j % 2 else (lambda e_, v_, s_: _via_writer(exporter, e_, v_, s_))
            text = R.lib("FldExporter.to_string_from_scope", call, fn, e, v, S[scope])
            if text is not _CRASHED:
                _judge_table(R, text, e, (sep, headers, inputs, outputs), d, exp, call, f"fld-rowcount:n={n}", v=v, alt_in=_grid(ranges, [c] * n, alt=True))
        else:
            m = len(e.output_variables)
            extra = rng.choice([0, 0, m])   # rows of a previously exported dataset also carry output columns: inputs = first n columns
            skip = rng.choice([0, 1, 2])
            nrows = rng.choice([0, 1, 2, 5, 9]) if j % 9 == 8 else rng.choice([1, 2, 5, 9])
            lines, exp = [], []
            for s_ in range(skip):
                lines.append(rng.choice([" ".join(v.name for v in e.input_variables), "0.5 " * (n + extra), "", "# skipped"]))
            for r_ in range(nrows):
                while rng.random() < 0.3:
                    lines.append(rng.choice(["", "   ", "# a comment", "#0.1 0.2", "#"]))
                row = [rng.choice([lo + (hi - lo) * rng.random(), lo, hi, lo + (hi - lo) * rng.randint(0, 4) / 4]) for lo, hi in ranges]
                if rng.random() < 0.08:
                    row[rng.randrange(n)] = rng.choice([NAN, INF, -INF, ranges[0][1] + 1.0])
                tk = [f"{x:.5f}" for x in row] + [f"{rng.random():.3f}" for _ in range(extra)]
                exp.append([float(t) for t in tk[:n]])
                lines.append(rng.choice([" ", " ", "  "]).join(tk) + rng.choice(["", "", " "]))
            while rng.random() < 0.3:
                lines.append(rng.choice(["", "# trailing comment"]))
            probe = copy.deepcopy(e)   # the input values as the input variables hold them (a lock-range input clips, Variable.value)
            for row in exp:
                for iv, x in zip(probe.input_variables, row):
                    iv.value = x
                row[:] = [_f(iv.value) for iv in probe.input_variables]
            content = "\n".join(lines) + rng.choice(["\n", ""])
            call = f"{src}; {cfg}x.to_string_from_reader(e, io.StringIO({content!r}), skip_lines={skip})"
            text = R.lib("FldExporter.to_string_from_reader" + (":empty" if not exp else ""), call, exporter.to_string_from_reader, e, io.StringIO(content), skip)
            if text is not _CRASHED:
                _judge_table(R, text, e, (sep, headers, inputs, outputs), d, exp, call, "fld-reader" + (":empty" if not exp else ""), reader=True)

    # (4) an engine that was exported (or processed) before and then EDITED - a term object of a variable replaced by another of the same name: the dataset tabulates the
    #     engine as it is when it is exported (the exporter restarts the engine, which reloads the rules; the reference is a restarted deep copy as everywhere above)
    fl.settings.decimals = 3
    for n, kind in ((1, "mamdani"), (2, "ts"), (2, "mamdani")):
        R.cases += 1; R.distinct += 1
        e = fl.FllImporter().from_string(fld_fll(n, kind))
        exporter = fl.FldExporter()
        src = f"e = fl.FllImporter().from_string(fld_fll({n}, {kind!r})); x = fl.FldExporter(); x.to_string_from_scope(e, 4, fl.FldExporter.ScopeOfValues.EachVariable); "
        if R.lib("FldExporter.to_string_from_scope", src, exporter.to_string_from_scope, e, 4, S.EachVariable) is _CRASHED:
            continue
        ov, iv = e.output_variables[0], e.input_variables[0]
        if kind == "mamdani":
            ov.terms[0] = fl.Triangle("a", 2.5, 3.5, 4.0)
            edit = "e.output_variables[0].terms[0] = fl.Triangle('a', 2.5, 3.5, 4.0); "
        else:
            ov.terms[0] = fl.Constant("a", -7.25)
            edit = "e.output_variables[0].terms[0] = fl.Constant('a', -7.25); "
        lo, hi = iv.minimum, iv.maximum
        iv.terms[1] = fl.Triangle("hi", lo, lo + 0.25 * (hi - lo), hi)
        edit += f"e.input_variables[0].terms[1] = fl.Triangle('hi', {lo}, {lo + 0.25 * (hi - lo)}, {hi}); "
        ranges = [(v_.minimum, v_.maximum) for v_ in e.input_variables]
        call = src + edit + "x.to_string_from_scope(e, 5, fl.FldExporter.ScopeOfValues.EachVariable)"
        text = R.lib("FldExporter.to_string_from_scope", call, exporter.to_string_from_scope, e, 5, S.EachVariable)
        if text is not _CRASHED:
            _judge_table(R, text, e, (" ", True, True, True), 3, _grid(ranges, [5] * n), call, f"fld-rowcount:n={n}", v=5, alt_in=_grid(ranges, [5] * n, alt=True))
    fl.settings.decimals = 6


def _via_writer(exporter, e, v, scope):
    import io
    w = io.StringIO()
    exporter.write_from_scope(e, w, v, scope)
    return w.getvalue()


replay_fld = _entry(_fld)


# ------------------------------------------------------------------------------------------------------ shared term generator
_SHAPES = ["Triangle", "Trapezoid", "Rectangle", "Gaussian", "Bell", "Sigmoid", "Ramp", "ZShape", "SShape", "PiShape", "Cosine", "Spike",
           "Concave", "GaussianProduct", "SigmoidDifference", "SigmoidProduct", "Binary", "Discrete"]
_TNORMS = ["Minimum", "AlgebraicProduct", "BoundedDifference", "DrasticProduct", "EinsteinProduct", "HamacherProduct", "NilpotentMinimum"]
_SNORMS = ["Maximum", "AlgebraicSum", "BoundedSum", "DrasticSum", "EinsteinSum", "HamacherSum", "NilpotentMaximum", "NormalizedSum", "UnboundedSum"]
_INTEGRAL = ["Centroid", "Bisector", "SmallestOfMaximum", "MeanOfMaximum", "LargestOfMaximum"]


def _rand_term(rng, lo, hi, kinds=None):
    """-> (class name, parameters, indices of the location parameters, continuous-and-well-conditioned flag)"""
    w = hi - lo

    def pts(k):
        return sorted(lo + w * rng.choice([rng.uniform(-0.2, 1.2), rng.randint(0, 8) / 8.0]) for _ in range(k))

    def gap(p):
        return all(b - a >= w / 64 for a, b in zip(p, p[1:]))
    c = rng.choice(kinds or _SHAPES)
    one = lo + w * rng.choice([rng.random(), rng.randint(0, 8) / 8.0])
    if c in ("Triangle", "Trapezoid", "PiShape"):
        p = pts(3 if c == "Triangle" else 4); return c, p, list(range(len(p))), gap(p)
    if c in ("Rectangle", "ZShape", "SShape"):
        p = pts(2); return c, p, [0, 1], c != "Rectangle" and gap(p)
    if c in ("Ramp", "Concave"):
        p = pts(2)
        if p[0] == p[1]:
            p[1] = p[0] + w / 8
        p = p if rng.random() < 0.5 else p[::-1]
        return c, p, [0, 1], c == "Ramp" and gap(sorted(p))
    if c == "Gaussian":
        return c, [one, w * rng.uniform(0.02, 0.5)], [0], True
    if c == "Bell":
        return c, [one, w * rng.uniform(0.05, 0.5), rng.choice([1.0, 2.0, 3.0, rng.uniform(0.5, 5)])], [0], True
    if c == "Sigmoid":
        return c, [one, rng.choice([-1, 1]) * rng.uniform(1, 20) / w], [0], True
    if c in ("Cosine", "Spike"):
        return c, [one, w * rng.uniform(0.1, 1.0)], [0], c == "Cosine"
    if c == "GaussianProduct":
        a, b = pts(2); return c, [a, w * rng.uniform(0.02, 0.4), b, w * rng.uniform(0.02, 0.4)], [0, 2], True
    if c in ("SigmoidDifference", "SigmoidProduct"):
        a, b = pts(2); s = 1.0 if c == "SigmoidDifference" else -1.0
        return c, [a, rng.uniform(2, 30) / w, s * rng.uniform(2, 30) / w, b], [0, 3], True
    if c == "Binary":
        return c, [one, rng.choice([INF, -INF])], [0], False
    xs = sorted({lo + w * rng.randint(0, 16) / 16.0 for _ in range(rng.randint(2, 5))} | {one})
    p = []
    for x in xs:
        p += [x, rng.choice([0.0, 1.0, 0.5, 0.25, rng.random()])]
    return "Discrete", p, list(range(0, len(p), 2)), gap(xs)


def _mk_term(fl, name, cls, p, height=1.0):
    if cls == "Discrete":
        return fl.Discrete(name, fl.Discrete.to_xy(p[0::2], p[1::2]), height)
    return getattr(fl, cls)(name, *p, height)


def _term_src(cls, p, height=1.0):
    if cls == "Discrete":
        return f"fl.Discrete('t', fl.Discrete.to_xy({p[0::2]}, {p[1::2]}), {height})"
    return f"fl.{cls}('t', " + ", ".join(f"float('{x}')" if math.isinf(x) else repr(x) for x in p) + f", {height})"


# ------------------------------------------------------------------------------------------------------------------ C09
def _oracle_integral(xs, mu):
    """the five defined points of the sampled set (plain Python loops) + the sample points that are ambiguous under rounding"""
    tot = sx = 0.0
    cum = []
    for x, m in zip(xs, mu):
        tot += m; sx += x * m; cum.append(tot)
    if not any(m != 0.0 for m in mu):
        return None
    out, amb = {"Centroid": sx / tot}, {}
    dist = [abs(c / tot - 0.5) for c in cum]
    best = min(dist)
    tie = [x for x, q in zip(xs, dist) if q == best]
    out["Bisector"] = sum(tie) / len(tie)
    amb["Bisector"] = [x for x, q in zip(xs, dist) if q <= best + 1e-12]
    top = max(mu)
    at = [x for x, m in zip(xs, mu) if m == top]
    near = [x for x, m in zip(xs, mu) if m >= top - 1e-12 * abs(top)]
    out["SmallestOfMaximum"], out["LargestOfMaximum"], out["MeanOfMaximum"] = min(at), max(at), sum(at) / len(at)
    for k in ("SmallestOfMaximum", "LargestOfMaximum", "MeanOfMaximum"):
        amb[k] = near
    for k in list(amb):
        if len(amb[k]) == len(tie if k == "Bisector" else at):
            del amb[k]
    return out, amb


def _sample_mu(fl, R, agg, acts, lo, hi, r, call):
    """mu_j by SCALAR calls of Aggregated.membership at x_j = lo + (j + 0.5) * ((hi - lo) / r), cross-checked against the fold
    aggregation(... , implication(degree, term.membership(x_j))) evaluated here on plain floats.  None: precondition not met (NaN)"""
    dx = (hi - lo) / r
    xs = [lo + (j + 0.5) * dx for j in range(r)]
    mu = []
    for x in xs:
        m = R.lib("Aggregated.membership(float)", call + f"  # agg.membership({x!r})", agg.membership, x)
        if m is _CRASHED:
            return _CRASHED
        m = _f(m)
        y = 0.0
        for t, deg, impl in acts:
            y = _f(agg.aggregation.compute(y, _f(impl.compute(deg, _f(t.membership(x))))))
        if not (_same(m, y) or abs(m - y) <= 1e-12 * max(1.0, abs(y))):
            R.fail("integral-membership", f"mu({x!r}) = {y!r} (fold of the activated terms)", repr(m), call + f"; agg.membership({x!r})")
        if m != m or math.isinf(m):
            return None
        mu.append(m)
    return xs, mu


def _integral(fl, R, rng, budget, seed=0, **kw):
    """The five integral defuzzifiers against the definitions of C09 computed in plain Python from scalar membership calls
    (Term.membership / Norm.compute on floats and Aggregated.membership on one float are building blocks, not the subject).
    An Activated term without implication and a non-empty Aggregated without aggregation raise ValueError by documentation, so every
    set here has both.  Tolerance 1e-9 * (max - min) + 1e-12 * max(|min|, |max|); ties that only differ by rounding (1e-12) accept any
    value between the tied points.  Classes: integral-value:<D>, integral-range, integral-order, integral-nan, integral-translation,
    integral-membership, integral-batch-shape:<D>:r=1 | r>1, integral-batch-shape-N1:<D> (N = 1: 0-d instead of shape (1,)),
    integral-batch-value."""
    import numpy as np
    widths = [(0.0, 1.0), (-1.0, 1.0), (-5.0, -2.0), (0.0, 1e-9), (1.0, 1.000001), (-1e6, 1e6), (0.0, 1e100), (-3e50, 1e50), (10.0, 30.0)]
    # every other case uses ONE long-lived defuzzifier object per class whose resolution is changed between cases (attribute assignment or configure()), as an
    # engine whose output variable is re-configured does: nothing may be remembered from the earlier resolution or range
    held, rng_h = {}, random.Random(f"{seed}:held-defuzzifiers")
    for case in range(2 * budget):
        lo, hi = rng.choice(widths) if rng.random() < 0.7 else (lambda a, w: (a, a + w))(rng.uniform(-100, 100), 10 ** rng.uniform(-6, 6))
        r = rng.choice([1, 2, 3, 4, 5, 7, 10, 10, 100, 100, 1000 if case % 8 == 0 else 50, rng.randint(1, 1000 if case % 8 == 0 else 120)])
        nt = rng.choice([0, 1, 1, 2, 2, 3, 4, 5])
        an, inn = rng.choice(_SNORMS), [rng.choice(_TNORMS) for _ in range(nt)]
        specs = [_rand_term(rng, lo, hi) + (rng.choice([1.0, 1.0, 0.5]),) for _ in range(nt)]
        degs = [rng.choice([0.0, 1.0, 0.5, 0.25, rng.random(), rng.random(), rng.random(), 1e-3, 5e-4, 1e-9]) for _ in range(nt)]          # incl. degrees inside the library's comparison tolerance: positive is positive
        if nt and rng.random() < 0.1:
            degs = [0.0] * nt

        def build(shift=0.0, degrees=None):
            ts = [_mk_term(fl, "t", c, [x + shift if i in loc else x for i, x in enumerate(p)], h) for c, p, loc, _, h in specs]
            acts = [(t, d, getattr(fl, i_)()) for t, d, i_ in zip(ts, degrees or degs, inn)]
            return fl.Aggregated("A", lo + shift, hi + shift, getattr(fl, an)(), [fl.Activated(t, d, i_) for t, d, i_ in acts]), acts

        def src(degrees, shift=0.0):
            acts = ", ".join(f"fl.Activated({_term_src(c, [x + shift if i in loc else x for i, x in enumerate(p)], h)}, {d}, fl.{i_}())"
                             for (c, p, loc, _, h), d, i_ in zip(specs, degrees, inn))
            return f"agg = fl.Aggregated('A', {lo + shift!r}, {hi + shift!r}, fl.{an}(), [{acts}])"
        R.cases += 1
        agg, acts = build()
        call0 = src(degs)
        sm = _sample_mu(fl, R, agg, acts, lo, hi, r, call0)
        if sm is _CRASHED or sm is None:
            continue
        xs, mu = sm
        orc = _oracle_integral(xs, mu)
        R.distinct += 1
        tol = 1e-9 * (hi - lo) + 1e-12 * max(abs(lo), abs(hi))
        got = {}
        for D in _INTEGRAL:
            call = f"{call0}; fl.{D}({r}).defuzzify(agg, {lo!r}, {hi!r})"
            dz = getattr(fl, D)(r)
            if case % 2 == 1:
                dz = held.setdefault(D, dz)
                how = rng_h.choice(["resolution", "configure"])
                if how == "resolution":
                    dz.resolution = r
                else:
                    dz.configure(str(r))
                call = f"{call0}; d = <the {D} object used in the earlier cases>; d.{'resolution = ' + str(r) if how == 'resolution' else 'configure(' + repr(str(r)) + ')'}; d.defuzzify(agg, {lo!r}, {hi!r})"
            z = R.lib(f"{D}.defuzzify", call, dz.defuzzify, agg, lo, hi)
            if z is _CRASHED:
                continue
            if np.size(z) != 1:
                R.fail(f"integral-value:{D}", "one value for one set", f"shape {np.shape(z)}", call); continue
            z = got[D] = _f(z)
            if orc is None:
                if z == z:
                    R.fail("integral-nan", "nan (membership 0 at every sample point)", z, call)
                continue
            want, amb = orc[0][D], orc[1].get(D)
            if z != z:
                R.fail("integral-nan", f"{want!r} (membership positive at some sample point)", "nan", call); continue
            if not (lo - tol <= z <= hi + tol):
                R.fail("integral-range", f"within [{lo!r}, {hi!r}]", z, call)
            if abs(z - want) > tol and not (amb and min(amb) - tol <= z <= max(amb) + tol):
                R.fail(f"integral-value:{D}", want, z, call)
        s_, m_, l_ = (got.get(k, NAN) for k in ("SmallestOfMaximum", "MeanOfMaximum", "LargestOfMaximum"))
        if orc is not None and not (s_ != s_ or m_ != m_ or l_ != l_) and not (s_ <= m_ + tol and m_ <= l_ + tol):
            R.fail("integral-order", "SOM <= MOM <= LOM", (s_, m_, l_), f"{call0}; [fl.{{D}}({r}).defuzzify(agg, {lo!r}, {hi!r}) for D in SOM, MOM, LOM]")
        # translation of set and range by c: only continuous, well-conditioned sets (a discontinuous term or norm next to a sample
        # point or a tiny total membership makes the relation ill-conditioned in floating point) and |c| <= 100 widths
        if orc is not None and "Centroid" in got and nt and all(s[3] for s in specs) and sum(mu) > 1e-3 and case % 2 == 0 \
                and not any(x.startswith(("Nilpotent", "Drastic")) for x in inn + [an]):
            c = rng.choice([1.0, -3.0, 0.375, rng.uniform(-100, 100)]) * (hi - lo)
            agg2, _ = build(shift=c)
            call = f"{src(degs, c)}; fl.Centroid({r}).defuzzify(agg, {lo + c!r}, {hi + c!r})  # original set: centroid {got['Centroid']!r}, c = {c!r}"
            z = R.lib("Centroid.defuzzify", call, fl.Centroid(r).defuzzify, agg2, lo + c, hi + c)
            if z is not _CRASHED:
                ttol = 1e-9 * (hi - lo) + 1e-11 * (abs(c) + max(abs(lo), abs(hi)))
                if np.size(z) != 1 or not abs(_f(z) - (got["Centroid"] + c)) <= ttol:
                    R.fail("integral-translation", got["Centroid"] + c, z, call)
        # a batch of N sets: the degrees are arrays of length N
        if nt and case % 2 == 1:
            N = rng.choice([1, 2, 2, 3, 5])
            rb = rng.choice([1, 1, 2, 3, 7, r if r <= 120 else 50])
            batch = [[rng.choice([0.0, 1.0, 0.5, rng.random(), rng.random(), rng.random(), 5e-4, 1e-9]) for _ in range(N)] for _ in range(nt)]
            if rng.random() < 0.3:
                i0 = rng.randrange(N)
                for b in batch:
                    b[i0] = 0.0
            per = []
            for i in range(N):
                a_i, acts_i = build(degrees=[b[i] for b in batch])
                sm = _sample_mu(fl, R, a_i, acts_i, lo, hi, rb, src([b[i] for b in batch]))
                per.append(None if sm in (None, _CRASHED) else (_oracle_integral(*sm) or ({k: NAN for k in _INTEGRAL}, {})))
            if any(p is None for p in per):
                continue
            aggb, _ = build(degrees=[np.array(b) for b in batch])
            callb = src([f"np.array({b})" for b in batch])
            for D in _INTEGRAL:
                R.cases += 1
                call = f"{callb}; fl.{D}({rb}).defuzzify(agg, {lo!r}, {hi!r})"
                z = R.lib(f"{D}.defuzzify(batch)", call, getattr(fl, D)(rb).defuzzify, aggb, lo, hi)
                if z is _CRASHED:
                    continue
                if np.shape(z) != (N,):
                    if N == 1 and np.size(z) == 1:
                        R.fail(f"integral-batch-shape-N1:{D}", "shape (1,)", f"shape {np.shape(z)}", call)
                    else:
                        R.fail(f"integral-batch-shape:{D}:{'r=1' if rb == 1 else 'r>1'}", f"shape ({N},): one result per set", f"shape {np.shape(z)}: {z!r}", call)
                        continue
                zs = [float(v) for v in np.ravel(z)]
                for i in range(N):
                    want, amb = per[i][0][D], per[i][1].get(D)
                    if not (_same(zs[i], want) or abs(zs[i] - want) <= tol or (amb and min(amb) - tol <= zs[i] <= max(amb) + tol)):
                        R.fail("integral-batch-value", f"set {i}: {want!r} (per-set results {[p[0][D] for p in per]})", zs, call)
                        break
            # the same Activated objects after their degrees were assigned anew (what a rule does when the next input arrives): the set is the one of the new degrees
            for a_, d_ in zip(aggb.terms, degs):
                a_.degree = d_
            for D in _INTEGRAL:
                if D not in got:
                    continue
                call = f"{callb}; fl.{D}({rb}).defuzzify(agg, {lo!r}, {hi!r}); [setattr(a, 'degree', d) for a, d in zip(agg.terms, {degs})]; fl.{D}({r}).defuzzify(agg, {lo!r}, {hi!r})"
                z = R.lib(f"{D}.defuzzify(degrees reassigned)", call, getattr(fl, D)(r).defuzzify, aggb, lo, hi)
                if z is _CRASHED:
                    continue
                if np.size(z) != 1 or not (_same(_f(z), got[D]) or abs(_f(z) - got[D]) <= tol):
                    R.fail("integral-reassigned-degree", f"{got[D]!r} (the value of a set built with these degrees)", z, call)


replay_integral = _entry(_integral)


# ------------------------------------------------------------------------------------------------------------------ C02
_HEDGES = ["not", "very", "somewhat", "any", "seldom", "extremely"]
_SHIPPED_DIRS = ("mamdani", "takagi_sugeno", "tsukamoto", "hybrid")


def gen_fll(seed, idx):
    """FLL text of the idx-th generated engine of replay_batch(seed=seed): General activation; idx % 8 enumerates lock-previous /
    default / lock-range of the output variables; idx // 8 walks through the defuzzifiers; terms, norms, hedges, weights random"""
    rng = random.Random(f"{seed}:{idx}")
    lockp, dflt, lockr = bool(idx & 1), bool(idx & 2), bool(idx & 4)
    fnum = lambda x: repr(x) if not math.isinf(x) else ("inf" if x > 0 else "-inf")   # noqa
    n_in = rng.choice([1, 1, 2])
    s, ins, outs = [f"Engine: gen{idx}"], [], []
    for i in range(n_in):
        lo, hi = rng.choice([(0.0, 1.0), (-2.0, 2.0), (10.0, 20.0)])
        s += [f"InputVariable: i{i}", f"  range: {lo} {hi}", f"  lock-range: {'true' if rng.random() < 0.3 else 'false'}"]
        names = []
        for k in range(rng.choice([2, 3])):
            c, p, _, _ = _rand_term(rng, lo, hi)
            s.append(f"  term: t{k} {c} " + " ".join(fnum(x) for x in p)); names.append(f"t{k}")
        ins.append((f"i{i}", names, lo, hi))
    kinds = ["integral", "ts", "tsukamoto"]
    for o in range(rng.choice([1, 1, 2])):
        kind = kinds[(idx // 8 + o) % 3]
        lo, hi = rng.choice([(0.0, 1.0), (-1.0, 3.0), (100.0, 200.0)])
        s += [f"OutputVariable: o{o}", f"  range: {lo} {hi}", f"  lock-range: {'true' if lockr else 'false'}"]
        names = []
        if kind == "integral":
            s += [f"  aggregation: {rng.choice(_SNORMS)}", f"  defuzzifier: {_INTEGRAL[(idx // 24 + o) % 5]} {rng.choice([1, 2, 3, 10, 50])}"]
        else:
            s += ["  aggregation: " + rng.choice(["none", "none", "Maximum", "UnboundedSum", "AlgebraicSum"]),
                  "  defuzzifier: " + ["WeightedAverage", "WeightedSum"][(idx // 24 + o) % 2] + rng.choice(["", "", " Automatic", " TakagiSugeno" if kind == "ts" else " Tsukamoto"])]
        s += [f"  default: {rng.choice([lo, (lo + hi) / 2, hi + 1.0]) if dflt else 'nan'}", f"  lock-previous: {'true' if lockp else 'false'}"]
        off = lambda: (lambda c: f"{'+' if c >= 0 else '-'} {abs(c)}")(round(rng.uniform(lo, hi), 3))   # noqa: no unary minus in Function
        rng_c = random.Random(f"{seed}:{idx}:{o}:constant")       # (own stream: the engines generated before this choice existed stay the same)
        for k in range(rng.choice([2, 3])):
            if kind == "integral":
                c, p, _, _ = _rand_term(rng, lo, hi)
                body = f"{c} " + " ".join(fnum(x) for x in p)
                if rng_c.random() < 0.15:        # a constant membership (a "floor") among the shapes of a Mamdani output
                    body = f"Constant {rng_c.choice([0.25, 0.5, 1.0])}"
                elif c != "Discrete" and rng_c.random() < 0.25:
                    body += f" {rng_c.choice([0.5, 0.75])}"          # a height other than 1
            elif kind == "tsukamoto":
                c, p, _, _ = _rand_term(rng, lo, hi, ["Ramp", "Ramp", "Sigmoid", "SShape", "ZShape", "Concave"])
                body = f"{c} " + " ".join(fnum(x) for x in p)
                if rng_c.random() < 0.4:         # a height other than 1 (last parameter of the term)
                    body += f" {rng_c.choice([0.5, 0.75, 0.9])}"
            else:
                body = rng.choice([f"Constant {rng.choice([lo, hi, rng.uniform(lo, hi)])!r}",
                                   "Linear " + " ".join(repr(round(rng.uniform(-2, 2), 3)) for _ in range(n_in + 1)),
                                   f"Function {round(rng.uniform(0, 2), 3)}*i0 {off()}",
                                   f"Function sin(i{n_in - 1}) * i0 {off()}"])
            s.append(f"  term: u{k} {body}"); names.append(f"u{k}")
        outs.append((f"o{o}", names, kind))
    impl = rng.choice(_TNORMS) if any(k == "integral" for _, _, k in outs) else rng.choice(["none", "none", "AlgebraicProduct", "Minimum"])
    s += ["RuleBlock:", f"  conjunction: {rng.choice(_TNORMS)}", f"  disjunction: {rng.choice(_SNORMS)}", f"  implication: {impl}", "  activation: General"]
    for _ in range(rng.choice([2, 3, 4])):
        props = []
        for _ in range(rng.choice([1, 1, 2])):
            v, names, _, _ = rng.choice(ins)
            h = [rng.choice(_HEDGES) for _ in range(rng.choice([0, 0, 0, 1, 2]))]
            if "any" in h:   # `any` is the last hedge and takes no term
                h = [x for x in h if x != "any"] + ["any"]
            props.append(f"{v} is {' '.join(h + ([] if 'any' in h else [rng.choice(names)]))}")
        ante = props[0] if len(props) == 1 else f"{props[0]} {rng.choice(['and', 'or'])} {props[1]}"
        cons = " and ".join(f"{v} is {rng.choice(['', '', '', 'very ', 'not '])}{rng.choice(names)}" for v, names, _ in (outs if rng.random() < 0.7 else outs[:1]))
        s.append(f"  rule: if {ante} then {cons}" + rng.choice(["", "", f" with {rng.choice([0.5, 0.25, 1.0])}"]))
    return "\n".join(s) + "\n"


def _state(e):
    """per output variable: value(s) and [(term name, degree(s))] of the fuzzy output"""
    import numpy as np
    out = []
    for ov in e.output_variables:
        try:
            fv = ov.fuzzy_value()
            fv = [str(x) for x in np.atleast_1d(fv)]
        except Exception as ex:  # noqa
            fv = [f"{type(ex).__name__}"]
        out.append((np.array(ov.value, dtype=float), [(a.term.name, np.array(a.degree, dtype=float)) for a in ov.fuzzy.terms], fv))
    return out


def _cmp(a, b):
    """0 equal (== or both NaN), 1 within 1e-12 relative, 2 different"""
    if _same(a, b):
        return 0
    if a == a and b == b and not math.isinf(a) and not math.isinf(b) and abs(a - b) <= 1e-12 * max(abs(a), abs(b)):
        return 1
    return 2


def _batch(fl, R, rng, budget, seed=0, engines=None, **kw):
    """Modes B (per-variable arrays) and C (Engine.input_values = matrix) against mode A (row by row, plain floats) from the same
    starting state (a deep copy of one restarted - and optionally warmed-up - engine).  Mode A is the reference of the statement.
    Engines: every shipped example of the mamdani / takagi_sugeno / tsukamoto / hybrid folders + generated engines `gen_fll(seed, i)`
    (kw `engines=[...]`: only these shipped names / generated indices).  Batches of 1, 2, 3, 7 rows with NaN, +-inf and out-of-range
    values, optionally followed by a second batch that continues from the state left by the first.  Values and per-row activation degrees
    must be == (or both NaN); within 1e-12 relative -> class batch-rounding.  Classes: batch-values:<defuzzifier|output_values>,
    batch-fuzzy, batch-rounding, batch-shape:<defuzzifier>:<r=1|no-activations|scalar-degrees|other>, batch-shape:output_values,
    batch-raises-only-in:<A|B|C>:<ExceptionType>."""
    import glob
    import numpy as np
    pool = []
    root = os.path.join(os.path.dirname(fl.__file__), "examples")
    shipped = sorted(p for d in _SHIPPED_DIRS for p in glob.glob(os.path.join(root, d, "**", "*.fll"), recursive=True))
    for p in shipped:
        rel = os.path.relpath(p, root)[:-4]
        pool.append(("shipped", rel, _example_src(rel)))
    n_gen = max(8, budget // 2 * 2)
    for i in range(n_gen):
        pool.append(("gen", i, None))
    if engines:
        pool = [p for p in pool if str(p[1]) in [str(x) for x in engines]]
    order = [p for p in pool if p[0] == "gen"]
    ship = [p for p in pool if p[0] == "shipped"]
    order = [x for pair in itertools.zip_longest(order, ship[:: max(1, 200 // budget)] if budget < 200 else ship) for x in pair if x]
    for kind, key, src in order:
        R.extra = None
        if kind == "shipped":
            base = R.lib("FllImporter.from_file", src, _example, fl, key)
        else:
            fll = gen_fll(seed, key)
            src = f"e = fl.FllImporter().from_string(gen_fll({seed!r}, {key}))"
            R.extra = {"engine_fll": fll}
            try:
                base = fl.FllImporter().from_string(fll)
            except Exception:   # a generated engine the importer rejects is not a case
                continue
        if base is _CRASHED or any(type(rb.activation).__name__ != "General" for rb in base.rule_blocks):
            continue
        R.distinct += 1
        ranges = [(iv.minimum, iv.maximum) for iv in base.input_variables]
        n = len(ranges)

        # the parameters of each input variable's terms and their reflections 2b - a (poles of the shape formulas), as Python floats in mode A
        rng_s = random.Random(f"{seed}:{key}:special-rows")
        if rng_s.random() < 0.5:
            # an engine written in Python code has plain Python floats as term parameters (the FLL importer stores numpy.float64): same engine, other number type
            for v_ in list(base.input_variables) + list(base.output_variables):
                for t in v_.terms:
                    for k_, x_ in list(vars(t).items()):
                        if isinstance(x_, np.floating):
                            setattr(t, k_, float(x_))
            src = src + "  # term parameters converted to Python floats: [setattr(t, k, float(x)) for v in e.variables for t in v.terms for k, x in list(vars(t).items()) if isinstance(x, np.floating)]"
        rng_d = random.Random(f"{seed}:{key}:disabled-input")
        if n >= 2 and rng_d.random() < 0.3:
            # a disabled input variable (not the last one): its propositions are 0, and the columns of Engine.input_values still belong to the variables by position
            base.input_variables[0].enabled = False
            src = src + "; e.input_variables[0].enabled = False"
        specials = []
        for iv in base.input_variables:
            sp = []
            for t in iv.terms:
                ps = sorted({float(v) for k_, v in vars(t).items() if isinstance(v, (int, float, np.floating)) and k_ != "height" and math.isfinite(float(v))})
                sp += ps + [2 * b - a for a in ps for b in ps if a != b]
            specials.append(sp)

        def rnd_row():
            row = [lo + (hi - lo) * rng.choice([rng.random(), rng.randint(0, 4) / 4.0]) for lo, hi in ranges]
            if rng_s.random() < 0.3:
                j = rng_s.randrange(n)
                if specials[j]:
                    row[j] = rng_s.choice(specials[j])
            u = rng.random()
            if u < 0.2:
                row = [NAN] * n if rng.random() < 0.6 else [NAN if rng.random() < 0.5 else x for x in row]
            elif u < 0.3:
                row[rng.randrange(n)] = rng.choice([INF, -INF])
            elif u < 0.42:
                j = rng.randrange(n); row[j] = rng.choice([ranges[j][0] - 1.5, ranges[j][1] + 1.5, ranges[j][1] * 3 + 7])
            return row
        for N, warm, N2 in ((1, False, 0), (2, True, 0), (3, False, 2), (7, True, 0), (3, True, 1), (2, False, 0)):
            R.cases += 1
            segs = [[rnd_row() for _ in range(k)] for k in (N, N2) if k]   # a second batch continues from the state left by the first
            oned = rng.random() < 0.5   # documented 1-d forms of Engine.input_values: one variable / one row
            segs_c = [[r[0] for r in sg] if (oned and n == 1) else (sg[0] if (oned and len(sg) == 1) else sg) for sg in segs]
            warm_row = None
            start = copy.deepcopy(base)
            start.restart()
            if warm:   # a state in which a previous value is held: one valid row processed with floats, then copied
                warm_row = [lo + (hi - lo) * rng.random() for lo, hi in ranges]
                for iv, v in zip(start.input_variables, warm_row):
                    iv.value = float(v)
                try:
                    start.process()
                except Exception:
                    continue
            res, err, mats = {}, {}, {}
            for mode in "ABC":
                e = copy.deepcopy(start)
                res[mode], mats[mode] = [], []
                try:
                    for sg, sc in zip(segs, segs_c):
                        if mode == "A":
                            per = []
                            for row in sg:
                                for iv, v in zip(e.input_variables, row):
                                    iv.value = float(v)
                                e.process()
                                per.append(_state(e))
                            res[mode].append(per)
                            continue
                        if mode == "B":
                            for j, iv in enumerate(e.input_variables):
                                iv.value = np.array([row[j] for row in sg], dtype=float)
                        else:
                            e.input_values = np.array(sc, dtype=float)
                        e.process()
                        res[mode].append(_state(e))
                        try:
                            mats[mode].append(np.array(e.output_values, dtype=float))
                        except Exception as ex:  # noqa
                            mats[mode].append(ex)
                except Exception as ex:  # noqa
                    err[mode] = ex
            lit = lambda x: repr(x).replace("nan", "np.nan").replace("inf", "np.inf")   # noqa
            pre = f"{src}; e.restart()" + (f"; [setattr(v, 'value', x) for v, x in zip(e.input_variables, {warm_row})]; e.process()" if warm else "")
            how = {"A": f"for row in {lit([r for sg in segs for r in sg])}:\n    [setattr(v, 'value', float(x)) for v, x in zip(e.input_variables, row)]; e.process(); print(e.output_values)",
                   "B": f"for X in {lit(segs)}:\n    [setattr(v, 'value', np.array(X)[:, j]) for j, v in enumerate(e.input_variables)]; e.process(); print(e.output_values)",
                   "C": f"for X in {lit(segs_c)}:\n    e.input_values = np.array(X); e.process(); print(e.output_values)"}
            for mode in "BC":
                call = f"{pre}\n{how[mode]}\n# mode {mode}; reference (mode A) from the same state:\n# " + how["A"].replace("\n", "\n# ")
                if (mode in err) != ("A" in err):
                    w = mode if mode in err else "A"
                    R.fail(f"batch-raises-only-in:{w}:{type(err[w]).__name__}", f"mode {'A' if w != 'A' else mode} does not raise", f"mode {w}: {type(err[w]).__name__}: {err[w]}", call)
                    continue
                if mode in err:
                    R.stats["both-raise"] = R.stats.get("both-raise", 0) + 1
                    continue
                for q, sg in enumerate(segs):
                    _cmp_modes(R, base, res["A"][q], res[mode][q], len(sg), f"{mode} (batch {q + 1} of {len(segs)})", call, mats[mode][q])


def _cmp_modes(R, base, A, B, N, mode, call, mat):
    import numpy as np
    shapes_ok = True
    for k, ov in enumerate(base.output_variables):
        dz = ov.defuzzifier
        dn = type(dz).__name__
        val, fz = B[k][0], B[k][1]
        a_vals = [_f(A[i][k][0]) for i in range(N)]
        if not ov.enabled:
            if not all(_same(a, b) for a, b in zip(a_vals, [float(x) for x in np.broadcast_to(val, (N,))] if val.size in (1, N) else [])):
                R.fail(f"batch-values:{dn}", f"disabled '{ov.name}' untouched: {a_vals}", f"mode {mode}: {val!r}", call)
            continue
        if (val.shape != (N,)) and not (N == 1 and val.size == 1):
            why = "no-activations" if not fz else ("r=1" if getattr(dz, "resolution", None) == 1 else
                                                   ("scalar-degrees" if all(d.size == 1 for _, d in fz) else "other"))
            R.fail(f"batch-shape:{dn}:{why}", f"'{ov.name}': {N} values {a_vals}", f"mode {mode}: shape {val.shape}: {val!r}", call)
            shapes_ok = False
            continue
        b_vals = [float(x) for x in val.reshape(-1)]
        worst = max(_cmp(a, b) for a, b in zip(a_vals, b_vals))
        if worst:
            R.fail("batch-rounding" if worst == 1 else f"batch-values:{dn}", f"'{ov.name}' (mode A) {a_vals}", f"mode {mode}: {b_vals}", call)
        # fuzzy outputs: the same activated terms with the same degrees, row for row
        worst, exp_f, got_f = 0, None, None
        for i in range(N):
            fa = [(nm, _f(d)) for nm, d in A[i][k][1]]
            try:
                fb = [(nm, float(np.broadcast_to(d, (N,))[i])) for nm, d in fz]
            except ValueError:
                fb = [(nm, f"shape {d.shape}") for nm, d in fz]
            w = 2 if len(fa) != len(fb) else max([0] + [2 if (x[0] != y[0] or isinstance(y[1], str)) else _cmp(x[1], y[1]) for x, y in zip(fa, fb)])
            if w > worst:
                worst, exp_f, got_f = w, (i, fa), (i, fb)
        if worst:
            R.fail("batch-rounding" if worst == 1 else "batch-fuzzy", f"'{ov.name}' row {exp_f[0]} (mode A): {exp_f[1]}", f"mode {mode}: {got_f[1]}", call)
        # OutputVariable.fuzzy_value(): one text per row, the text of that row processed alone
        fva = [A[i][k][2][0] if len(A[i][k][2]) == 1 else str(A[i][k][2]) for i in range(N)]
        fvb = B[k][2]
        if len(fvb) == 1 and N > 1:
            fvb = fvb * N          # degrees that do not depend on the inputs are kept once: one text that holds for every row
        if not worst and shapes_ok and (len(fvb) != N or any(x != y for x, y in zip(fva, fvb))):
            R.fail("batch-fuzzy:fuzzy_value", f"'{ov.name}' (mode A) {fva}", f"mode {mode}: {fvb}", call)


    # Engine.output_values (the documented observation point) once every variable holds N values
    if shapes_ok and base.output_variables and all(ov.enabled for ov in base.output_variables):
        want = [[_f(A[i][k][0]) for k in range(len(base.output_variables))] for i in range(N)]
        if isinstance(mat, Exception):
            R.fail(f"batch-raises-only-in:{mode[0]}:{type(mat).__name__}", "Engine.output_values does not raise (mode A)", f"{type(mat).__name__}: {mat}", call)
        elif mat.shape != (N, len(want[0])):
            R.fail("batch-shape:output_values", f"shape {(N, len(want[0]))}", f"mode {mode}: shape {mat.shape}", call)
        elif max(_cmp(a, float(b)) for ra, rb in zip(want, mat) for a, b in zip(ra, rb)) == 2:
            R.fail("batch-values:output_values", want, mat.tolist(), call)


replay_batch = _entry(_batch)
