"""Native bounded stand-in for the copy clause of C13 (runs under /venv/bin/python against the package given by the runner): `Engine.copy()` returns an
engine that produces identical results and shares no state with the original - operating or editing either never changes the other.

Cases: small engines over every activation method with parameters (First, Last, Highest, Lowest, Threshold, Proportional, General), integral and weighted
outputs, Linear / Function terms that refer to the engine; the SAME engine copied twice (the copies are two objects, neither is the original); every component object
that has state of its own (variables, terms, rule blocks, rules, activation methods, defuzzifiers, fuzzy outputs) is a different object in original and copy; an
edit of the copy (activation parameter, term parameter, rule weight, defuzzifier resolution, rule text, variable range) leaves text and outputs of the original
unchanged and vice versa; a copy taken AFTER an edit of the original has the edit.  Expected outputs come from a freshly built engine with the same edits.
"""
import random

ACTS = ["General", "First 1 0.200", "Last 1 0.100", "Highest 1", "Lowest 1", "Threshold > 0.300", "Threshold >= 0.500", "Proportional", "First 2 0.000", "Highest 2"]


def _fll(act, weighted, n_in):
    s = ["Engine: c"]
    for i in range(n_in):
        s += [f"InputVariable: x{i}", "  range: 0 1", "  term: lo Ramp 1 0", "  term: hi Ramp 0 1", "  term: mid Triangle 0 0.5 1"]
    if weighted:
        s += ["OutputVariable: y", "  range: -10 10", "  aggregation: none", "  defuzzifier: WeightedAverage", "  term: a Constant 1.5", "  term: b Constant -2", "  term: c Constant 4"]
    else:
        s += ["OutputVariable: y", "  range: 0 4", "  aggregation: Maximum", "  defuzzifier: Centroid 50", "  term: a Triangle 0 1 2", "  term: b Triangle 1 2 3", "  term: c Triangle 2 3 4"]
    s += ["RuleBlock:", "  conjunction: Minimum", "  disjunction: Maximum", "  implication: " + ("none" if weighted else "AlgebraicProduct"), f"  activation: {act}",
          "  rule: if x0 is lo then y is a", "  rule: if x0 is hi then y is b with 0.5", f"  rule: if x0 is mid and x{n_in - 1} is not lo then y is c",
          f"  rule: if x{n_in - 1} is hi or x0 is lo then y is b"]
    return "\n".join(s) + "\n"


def _build(fl, act, weighted, n_in, engine_terms):
    e = fl.FllImporter().from_string(_fll(act, weighted, n_in))
    if weighted and engine_terms:
        ov = e.output_variables[0]
        ov.terms[0] = fl.Linear("a", [0.5] * n_in + [1.0], e)
        ov.terms[1] = fl.Function.create("b", "x0 * 2 + 1", e)
        for b in e.rule_blocks:
            b.reload_rules(e)
    return e


EDITS = ["activation", "term", "weight", "defuzzifier", "text", "range", "input-term"]


def _edit(fl, e, kind, rng_val):
    """apply one edit; returns a description, or None when the edit does not exist for this engine"""
    rb, ov = e.rule_blocks[0], e.output_variables[0]
    if kind == "activation":
        a = rb.activation
        if hasattr(a, "threshold"):
            a.threshold = [0.05, 0.45, 0.8][rng_val % 3]
            return f"rule_blocks[0].activation.threshold = {a.threshold}"
        if hasattr(a, "rules"):
            a.rules = [2, 3, 1][rng_val % 3] if a.rules != [2, 3, 1][rng_val % 3] else 4
            return f"rule_blocks[0].activation.rules = {a.rules}"
        return None
    if kind == "term":
        t = ov.terms[2]
        if isinstance(t, fl.Constant):
            t.value = [7.0, -3.0, 0.25][rng_val % 3]
            return f"output term c value = {t.value}"
        t.vertex_b = [2.25, 3.5, 2.75][rng_val % 3]
        return f"output term c vertex_b = {t.vertex_b}"
    if kind == "weight":
        rb.rules[0].weight = [0.5, 0.25, 0.75][rng_val % 3]
        return f"rules[0].weight = {rb.rules[0].weight}"
    if kind == "defuzzifier":
        d = ov.defuzzifier
        if hasattr(d, "resolution"):
            d.resolution = [7, 11, 23][rng_val % 3]
            return f"defuzzifier.resolution = {d.resolution}"
        ov.defuzzifier = fl.WeightedSum()
        return "defuzzifier = WeightedSum()"
    if kind == "text":
        r = rb.rules[1]
        r.text = "if x0 is very hi then y is c"
        r.load(e)
        return "rules[1].text = 'if x0 is very hi then y is c'; load"
    if kind == "range":
        ov.default_value = [1.0, 2.0, 3.0][rng_val % 3]
        ov.lock_range = True
        return f"output default {ov.default_value}, lock-range on"
    if kind == "input-term":
        e.input_variables[0].terms[1].end = [0.5, 0.75, 0.6][rng_val % 3]
        return f"x0.hi.end = {e.input_variables[0].terms[1].end}"
    return None


def _stateful(fl, e):
    """component objects that carry state of their own, with a path"""
    out = [("engine", e)]
    for i, v in enumerate(e.input_variables + e.output_variables):
        out.append((f"variable {v.name}", v))
        out += [(f"term {v.name}.{t.name}", t) for t in v.terms]
    for ov in e.output_variables:
        out.append((f"fuzzy output of {ov.name}", ov.fuzzy))
        if ov.defuzzifier is not None:
            out.append((f"defuzzifier of {ov.name}", ov.defuzzifier))
    for bi, b in enumerate(e.rule_blocks):
        out.append((f"rule block {bi}", b))
        if b.activation is not None and vars(b.activation):
            out.append((f"activation method of rule block {bi}", b.activation))
        for ri, r in enumerate(b.rules):
            out += [(f"rule {bi}.{ri}", r), (f"antecedent {bi}.{ri}", r.antecedent), (f"consequent {bi}.{ri}", r.consequent)]
    return out


def _run(fl, e, rows):
    import numpy as np
    out = []
    for row in rows:
        for v, x in zip(e.input_variables, row):
            v.value = x
        e.process()
        out.append([float(np.take(np.asarray(ov.value, dtype=float), -1)) for ov in e.output_variables])
    return out


def _same(a, b):
    return all((x == y) or (x != x and y != y) for ra, rb in zip(a, b) for x, y in zip(ra, rb)) and len(a) == len(b)


def replay_copy(fl, FA, vals=None, seed=0, budget=200, **kw):
    rng = random.Random(seed)
    cases, seen = 0, set()
    grid = [0.0, 0.1, 0.25, 0.4, 0.5, 0.6, 0.75, 0.9, 1.0]
    combos = [(a, w, n, t) for a in ACTS for w in (False, True) for n in (1, 2) for t in (False, True) if w or not t]
    rng.shuffle(combos)
    for it in range(max(1, budget)):
        act, weighted, n_in, eng_terms = combos[it % len(combos)]
        rows = [[rng.choice(grid) for _ in range(n_in)] for _ in range(6)]
        src = f"e = <engine: activation {act!r}, {'weighted' if weighted else 'integral'} output, {n_in} input(s){', Linear/Function terms' if eng_terms else ''}>"
        try:
            e = _build(fl, act, weighted, n_in, eng_terms)
            base = _run(fl, _build(fl, act, weighted, n_in, eng_terms), rows)
        except Exception:
            continue
        text0 = str(e)
        c1, c2 = e.copy(), e.copy()
        cases += 1
        seen.add((act, weighted, n_in, eng_terms))
        if c1 is c2 or c1 is e or c2 is e:
            return {"failed": True, "cases": cases, "expected": "every copy() returns a new engine object", "observed": "c1 is c2" if c1 is c2 else "a copy is the original", "call": f"{src}; c1 = e.copy(); c2 = e.copy()"}
        for (pa, a), (_, b), (_, c) in zip(_stateful(fl, e), _stateful(fl, c1), _stateful(fl, c2)):
            if a is b or a is c or b is c:
                return {"failed": True, "cases": cases, "expected": "copy and original share no component object that has state", "observed": f"{pa} is the same object in " + ("original and copy" if (a is b or a is c) else "two copies"),
                        "call": f"{src}; c1 = e.copy(); c2 = e.copy()"}
        if str(c1) != text0 or not _same(_run(fl, c1, rows), base):
            return {"failed": True, "cases": cases, "expected": "the copy has the text and the outputs of the original", "observed": "text differs" if str(c1) != text0 else "outputs differ", "call": f"{src}; e.copy() on rows {rows}"}
        # edits of one copy: original and the other copy keep text and outputs
        kinds = rng.sample(EDITS, 3)
        done = [d for d in (_edit(fl, c1, k, rng.randrange(3)) for k in kinds) if d]
        try:
            _run(fl, c1, rows)
        except Exception:
            pass
        for who, eng in (("original", e), ("second copy", c2)):
            if str(eng) != text0:
                return {"failed": True, "cases": cases, "expected": f"text of the {who} unchanged", "observed": "its FuzzyLite Language text changed", "call": f"{src}; c1 = e.copy(); c2 = e.copy(); on c1: {done}"}
            try:
                got = _run(fl, eng, rows)
            except Exception as ex:  # noqa
                return {"failed": True, "cases": cases, "expected": f"the {who} still processes", "observed": f"{type(ex).__name__}: {ex}", "call": f"{src}; c1 = e.copy(); c2 = e.copy(); on c1: {done}"}
            if not _same(got, base):
                return {"failed": True, "cases": cases, "expected": base, "observed": got, "call": f"{src}; c1 = e.copy(); c2 = e.copy(); on c1: {done}; outputs of the {who} on rows {rows}"}
        # an edit of the original: earlier copies keep theirs, a copy taken afterwards has it
        k = rng.choice(EDITS)
        d = _edit(fl, e, k, rng.randrange(3))
        if d:
            if str(c2) != text0:
                return {"failed": True, "cases": cases, "expected": "text of an earlier copy unchanged by an edit of the original", "observed": "its text changed", "call": f"{src}; c2 = e.copy(); on e: {d}"}
            c3 = e.copy()
            if str(c3) != str(e):
                return {"failed": True, "cases": cases, "expected": "a copy taken after an edit of the original has the edit", "observed": "the new copy still has the text from before the edit (or is an earlier copy)",
                        "call": f"{src}; e.copy(); on e: {d}; c3 = e.copy(); str(c3) == str(e)"}
            try:
                want = _run(fl, e, rows)
            except Exception:
                continue
            got = _run(fl, c3, rows)
            if not _same(got, want):
                return {"failed": True, "cases": cases, "expected": want, "observed": got, "call": f"{src}; e.copy(); on e: {d}; c3 = e.copy(); outputs of c3 on rows {rows}"}
    return {"failed": False, "cases": cases, "distinct": len(seen)}
