"""Targeted native stand-ins for FLL corner documents that the generic mutation / covering-array harnesses reach only by chance
(added after seeded changes C16-6 and C14-6 were first missed):
  * replay_fll_edge_mutations: small documents whose Function / Linear / Discrete terms have ONE-token parameter lists, mutated exhaustively
    at line and token level by the machinery of contracts/parsing_native.py (same import contract);
  * replay_fll_empty_components: engines with term-less variables, empty rule blocks, rule blocks without operators, described / disabled
    components: export -> import -> export is a fixed point and no component is lost."""
import hashlib
import random

EDGE_DOCS = [
    """Engine: Sugeno
InputVariable: Ambient
  enabled: true
  range: 0.000 1.000
  lock-range: false
  term: DARK Triangle 0.000 0.250 0.500
  term: BRIGHT Triangle 0.500 0.750 1.000
OutputVariable: Power
  enabled: true
  range: 0.000 2.000
  lock-range: false
  aggregation: none
  defuzzifier: WeightedAverage TakagiSugeno
  default: nan
  lock-previous: false
  term: LOW Function Ambient
  term: HIGH Function 2*Ambient
  term: MID Linear 1.000
  term: K Constant 0.500
RuleBlock: rules
  enabled: true
  conjunction: none
  disjunction: none
  implication: none
  activation: General
  rule: if Ambient is DARK then Power is HIGH
  rule: if Ambient is BRIGHT then Power is LOW
  rule: if Ambient is any then Power is MID and Power is K
""",
    """Engine: Mamdani
InputVariable: x
  enabled: true
  range: 0.000 1.000
  lock-range: true
  term: d Discrete 0.000 1.000 1.000 0.000
  term: f Function x
OutputVariable: y
  enabled: true
  range: 0.000 1.000
  lock-range: false
  aggregation: Maximum
  defuzzifier: Centroid 10
  default: 0.500
  lock-previous: true
  term: t Triangle 0.000 0.500 1.000
RuleBlock: rb
  enabled: true
  conjunction: Minimum
  disjunction: Maximum
  implication: Minimum
  activation: First 1 0.100
  rule: if x is d or x is f then y is t
""",
]
TOLERATED = ["accepted-malformed:antecedent-arrangement", "accepted-not-processable:ValueError@rule.py:activate", "accepted-not-processable:ValueError@term.py:membership",
             "accepted-not-processable:TypeError@defuzzifier.py:infer_type", "accepted-not-processable:ValueError@term.py:evaluate"]


def replay_fll_edge_mutations(fl, FA, vals=None, seed=0, budget=200, skip_classes=(), only_class=None, **kw):
    from contracts.parsing_native import _Run, _judge_fll, _fll_mutants
    rng = random.Random(seed)
    run = _Run(tuple(skip_classes) or tuple(TOLERATED), only_class)
    for i, text in enumerate(EDGE_DOCS):
        name = f"contracts.fll_edge_native.EDGE_DOCS[{i}]"
        run.cases += 1
        f = _judge_fll(fl, run, text, name, "no change")
        if f:
            return f
        lines = text.rstrip("\n").split("\n")
        for op, desc, m in _fll_mutants(lines, rng, None):
            h = hashlib.md5(m.encode()).digest()
            if h in run.seen or m == text:
                continue
            run.seen.add(h)
            run.cases += 1
            f = _judge_fll(fl, run, m, name, desc)
            if f:
                return f
    r = run.result(documents=len(EDGE_DOCS))
    r.pop("rejected_valid", None), r.pop("rejected_valid_examples", None)
    return r


def replay_fll_empty_components(fl, FA, vals=None, seed=0, **kw):
    T = lambda n: fl.Triangle(n, 0.0, 0.5, 1.0)
    cases = 0
    engines = []
    for desc in ("", "an engine"):
        e = fl.Engine("edge", desc,
                      input_variables=[fl.InputVariable("x", minimum=0.0, maximum=1.0, terms=[T("a")]), fl.InputVariable("z", description="raw input without terms", minimum=-1.0, maximum=1.0),
                                       fl.InputVariable("off", enabled=False, minimum=0.0, maximum=1.0, terms=[T("a")])],
                      output_variables=[fl.OutputVariable("y", minimum=0.0, maximum=1.0, aggregation=fl.Maximum(), defuzzifier=fl.Centroid(20), terms=[T("b")]),
                                        fl.OutputVariable("w", minimum=0.0, maximum=1.0)],
                      rule_blocks=[fl.RuleBlock("main", conjunction=fl.Minimum(), disjunction=fl.Maximum(), implication=fl.Minimum(), activation=fl.General(), rules=[fl.Rule.create("if x is a then y is b")]),
                                   fl.RuleBlock("spare", description="no rules yet"), fl.RuleBlock("bare", enabled=False)])
        for rb in e.rule_blocks:
            rb.load_rules(e)
        engines.append(e)
    for e in engines:
        cases += 1
        t1 = fl.FllExporter().to_string(e)
        try:
            e2 = fl.FllImporter().from_string(t1)
        except Exception as ex:  # noqa
            return {"failed": True, "class": "fll-structure:import-error", "expected": "the exported text imports", "observed": f"{type(ex).__name__}: {ex}", "call": "export/import of an engine with term-less variables and empty rule blocks", "cases": cases}
        t2 = fl.FllExporter().to_string(e2)
        names = lambda g: ([v.name for v in g.input_variables], [v.name for v in g.output_variables], [b.name for b in g.rule_blocks])
        if names(e2) != names(e) or t1 != t2:
            return {"failed": True, "class": "fll-structure:component-lost", "expected": f"components {names(e)} and the same text", "observed": f"components {names(e2)}; same text: {t1 == t2}",
                    "call": "fl.FllExporter().to_string(fl.FllImporter().from_string(fl.FllExporter().to_string(engine))) for an engine with a term-less input variable `z`, a term-less output `w`, an empty rule block `spare` and a disabled bare block", "cases": cases}
    return {"failed": False, "cases": cases, "distinct": cases}
