"""Sidecar contracts for the shape terms of fuzzylite.term (properties C03, C11; used by C10).

Oracles = DESIGN Appendix A.3: the documented closed form of each class docstring, scaled by height, completed by the
clauses of the property statement (NaN iff x is NaN; edge terms saturate).  Nothing here is transcribed from a method
body.  Everything is written against the spec algebra `A` so that it has a symbolic and a concrete interpretation.
`p` maps field names to values; `x` is the argument.
"""

MODULE = "term"


def _H(A, p):
    h = p["height"]
    return A.and_(A.fin(h), A.gt(h, A.c(0.0)), A.le(h, A.c(1.0)))


def _fin(A, p, *names):
    return A.and_(*[A.fin(p[n]) for n in names])


def _nn(A, p, *names):
    return A.and_(*[A.not_(A.isnan(p[n])) for n in names])


def _nanx(A, x, v):
    return A.ite(A.isnan(x), A.NAN, v)


class T:
    """contract of one term class"""

    def __init__(s, cls, params, valid, oracle, monotone=None, height=True, doc="", invertible=None):
        s.cls, s.params, s._valid, s._oracle, s.monotone, s.height, s.doc = cls, params, valid, oracle, monotone, height, doc
        s.invertible = invertible          # extra premise of the Tsukamoto clauses: a vertical edge (a step) takes no value strictly between 0 and the height

    def fields(s):
        return s.params + (["height"] if s.height else [])

    def valid(s, A, p):
        v = s._valid(A, p)
        return A.and_(_H(A, p), v) if s.height else v

    def oracle(s, A, p, x):
        return s._oracle(A, p, x)


# ------------------------------------------------------------------------------------------------ oracles
def arc(A, p, x):
    s, e, h = p["start"], p["end"], p["height"]
    r = A.sub(e, s); c = e
    inside = A.or_(A.and_(A.lt(s, e), A.le(s, x), A.le(x, e)), A.and_(A.gt(s, e), A.le(e, x), A.le(x, s)))
    beyond_end = A.or_(A.and_(A.lt(s, e), A.gt(x, e)), A.and_(A.gt(s, e), A.lt(x, e)))
    body = A.div(A.mul(h, A.sqrt(A.sub(A.square(r), A.square(A.sub(x, c))))), A.abs(r))
    return _nanx(A, x, A.ite(inside, body, A.ite(beyond_end, h, A.c(0.0))))


def bell(A, p, x):
    c, w, s, h = p["center"], p["width"], p["slope"], p["height"]
    return _nanx(A, x, A.div(h, A.add(A.c(1.0), A.pow(A.div(A.abs(A.sub(x, c)), w), A.mul(A.c(2.0), s)))))


def binary(A, p, x):
    s, d, h = p["start"], p["direction"], p["height"]
    on = A.or_(A.and_(A.isposinf(d), A.ge(x, s)), A.and_(A.isneginf(d), A.le(x, s)))
    return _nanx(A, x, A.ite(on, h, A.c(0.0)))


def concave(A, p, x):
    i, e, h = p["inflection"], p["end"], p["height"]
    inc = A.mul(h, A.div(A.sub(e, i), A.sub(A.sub(A.mul(A.c(2.0), e), i), x)))
    dec = A.mul(h, A.div(A.sub(i, e), A.add(A.sub(i, A.mul(A.c(2.0), e)), x)))
    return _nanx(A, x, A.ite(A.and_(A.le(i, e), A.lt(x, e)), inc, A.ite(A.and_(A.gt(i, e), A.gt(x, e)), dec, h)))


def constant(A, p, x):
    return p["value"]


def cosine(A, p, x):
    c, w, h = p["center"], p["width"], p["height"]
    half = A.div(w, A.c(2.0))
    within = A.and_(A.ge(x, A.sub(c, half)), A.le(x, A.add(c, half)))
    body = A.mul(A.div(h, A.c(2.0)), A.add(A.c(1.0), A.cos(A.mul(A.mul(A.div(A.c(2.0), w), A.PI), A.sub(x, c)))))
    return _nanx(A, x, A.ite(within, body, A.c(0.0)))


def _gauss(A, x, m, sd):
    return A.exp(A.div(A.neg(A.square(A.sub(x, m))), A.mul(A.c(2.0), A.square(sd))))


def gaussian(A, p, x):
    return _nanx(A, x, A.mul(p["height"], _gauss(A, x, p["mean"], p["standard_deviation"])))


def gaussian_product(A, p, x):
    a = A.ite(A.lt(x, p["mean_a"]), _gauss(A, x, p["mean_a"], p["standard_deviation_a"]), A.c(1.0))
    b = A.ite(A.gt(x, p["mean_b"]), _gauss(A, x, p["mean_b"], p["standard_deviation_b"]), A.c(1.0))
    return _nanx(A, x, A.mul(A.mul(p["height"], a), b))


def _sshape(A, x, s, e, h):
    mid = A.div(A.add(s, e), A.c(2.0))
    d = A.sub(e, s)
    up = A.mul(A.mul(A.c(2.0), h), A.square(A.div(A.sub(x, s), d)))
    dn = A.sub(h, A.mul(A.mul(A.c(2.0), h), A.square(A.div(A.sub(x, e), d))))
    return A.ite(A.le(x, s), A.c(0.0), A.ite(A.le(x, mid), up, A.ite(A.lt(x, e), dn, h)))


def _zshape(A, x, s, e, h):
    mid = A.div(A.add(s, e), A.c(2.0))
    d = A.sub(e, s)
    dn = A.sub(h, A.mul(A.mul(A.c(2.0), h), A.square(A.div(A.sub(x, s), d))))
    lo = A.mul(A.mul(A.c(2.0), h), A.square(A.div(A.sub(x, e), d)))
    return A.ite(A.le(x, s), h, A.ite(A.lt(x, mid), dn, A.ite(A.lt(x, e), lo, A.c(0.0))))


def sshape(A, p, x):
    return _nanx(A, x, _sshape(A, x, p["start"], p["end"], p["height"]))


def zshape(A, p, x):
    return _nanx(A, x, _zshape(A, x, p["start"], p["end"], p["height"]))


def pishape(A, p, x):
    one = A.c(1.0)
    return _nanx(A, x, A.mul(A.mul(p["height"], _sshape(A, x, p["bottom_left"], p["top_left"], one)),
                             _zshape(A, x, p["top_right"], p["bottom_right"], one)))


def ramp(A, p, x):
    s, e, h = p["start"], p["end"], p["height"]
    up = A.mul(h, A.div(A.sub(x, s), A.sub(e, s)))
    dn = A.mul(h, A.div(A.sub(s, x), A.sub(s, e)))
    top = A.or_(A.and_(A.lt(s, e), A.ge(x, e)), A.and_(A.gt(s, e), A.le(x, e)))
    return _nanx(A, x, A.ite(A.and_(A.lt(s, x), A.lt(x, e)), up, A.ite(A.and_(A.lt(e, x), A.lt(x, s)), dn, A.ite(top, h, A.c(0.0)))))


def rectangle(A, p, x):
    s, e, h = p["start"], p["end"], p["height"]
    lo, hi = A.ite(A.lt(e, s), e, s), A.ite(A.lt(e, s), s, e)
    return _nanx(A, x, A.ite(A.and_(A.le(lo, x), A.le(x, hi)), h, A.c(0.0)))


def semiellipse(A, p, x):
    s, e, h = p["start"], p["end"], p["height"]
    lo, hi = A.ite(A.lt(e, s), e, s), A.ite(A.lt(e, s), s, e)
    r = A.div(A.sub(hi, lo), A.c(2.0)); c = A.div(A.add(lo, hi), A.c(2.0))
    body = A.mul(h, A.div(A.sqrt(A.sub(A.square(r), A.square(A.sub(x, c)))), r))
    return _nanx(A, x, A.ite(A.and_(A.ge(x, lo), A.le(x, hi)), body, A.c(0.0)))


def _sig(A, x, i, s):
    return A.div(A.c(1.0), A.add(A.c(1.0), A.exp(A.mul(A.neg(s), A.sub(x, i)))))


def sigmoid(A, p, x):
    return _nanx(A, x, A.mul(p["height"], _sig(A, x, p["inflection"], p["slope"])))


def sigmoid_difference(A, p, x):
    a = _sig(A, x, p["left"], p["rising"]); b = _sig(A, x, p["right"], p["falling"])
    return _nanx(A, x, A.mul(p["height"], A.abs(A.sub(a, b))))


def sigmoid_product(A, p, x):
    a = _sig(A, x, p["left"], p["rising"]); b = _sig(A, x, p["right"], p["falling"])
    return _nanx(A, x, A.mul(p["height"], A.mul(a, b)))


def spike(A, p, x):
    c, w, h = p["center"], p["width"], p["height"]
    return _nanx(A, x, A.mul(h, A.exp(A.neg(A.abs(A.div(A.mul(A.c(10.0), A.sub(x, c)), w))))))


def trapezoid(A, p, x):
    a, b, c, d, h = p["bottom_left"], p["top_left"], p["top_right"], p["bottom_right"], p["height"]
    top = A.or_(A.and_(A.le(b, x), A.le(x, c)), A.and_(A.isneginf(a), A.lt(x, b)), A.and_(A.isposinf(d), A.gt(x, c)))
    up = A.mul(h, A.div(A.sub(x, a), A.sub(b, a)))
    dn = A.mul(h, A.div(A.sub(d, x), A.sub(d, c)))
    return _nanx(A, x, A.ite(A.or_(A.lt(x, a), A.gt(x, d)), A.c(0.0), A.ite(top, h, A.ite(A.lt(x, b), up, dn))))


def triangle(A, p, x):
    a, b, c, h = p["left"], p["top"], p["right"], p["height"]
    top = A.or_(A.eq(x, b), A.and_(A.isneginf(a), A.lt(x, b)), A.and_(A.isposinf(c), A.gt(x, b)))
    up = A.mul(h, A.div(A.sub(x, a), A.sub(b, a)))
    dn = A.mul(h, A.div(A.sub(c, x), A.sub(c, b)))
    return _nanx(A, x, A.ite(A.or_(A.lt(x, a), A.gt(x, c)), A.c(0.0), A.ite(top, h, A.ite(A.lt(x, b), up, dn))))


# ------------------------------------------------------------------------------------------------ validity ("valid parameters")
def _ne(A, a, b): return A.ne(a, b)


TERMS = {t.cls: t for t in [
    T("Arc", ["start", "end"], lambda A, p: A.and_(_fin(A, p, "start", "end"), _ne(A, p["start"], p["end"])), arc,
      monotone=lambda A, p: (A.lt(p["start"], p["end"]), A.gt(p["start"], p["end"]))),
    T("Bell", ["center", "width", "slope"], lambda A, p: A.and_(_fin(A, p, "center", "width", "slope"), A.gt(p["width"], A.c(0.0)), A.ge(p["slope"], A.c(0.0))), bell),
    T("Binary", ["start", "direction"], lambda A, p: A.and_(_fin(A, p, "start"), A.or_(A.isposinf(p["direction"]), A.isneginf(p["direction"]))), binary),
    T("Concave", ["inflection", "end"], lambda A, p: A.and_(_fin(A, p, "inflection", "end"), _ne(A, p["inflection"], p["end"])), concave,
      monotone=lambda A, p: (A.lt(p["inflection"], p["end"]), A.gt(p["inflection"], p["end"]))),
    T("Constant", ["value"], lambda A, p: A.and_(), constant, height=False),
    T("Cosine", ["center", "width"], lambda A, p: A.and_(_fin(A, p, "center", "width"), A.gt(p["width"], A.c(0.0))), cosine),
    T("Gaussian", ["mean", "standard_deviation"], lambda A, p: A.and_(_fin(A, p, "mean", "standard_deviation"), _ne(A, p["standard_deviation"], A.c(0.0))), gaussian),
    T("GaussianProduct", ["mean_a", "standard_deviation_a", "mean_b", "standard_deviation_b"],
      lambda A, p: A.and_(_fin(A, p, "mean_a", "standard_deviation_a", "mean_b", "standard_deviation_b"),
                          _ne(A, p["standard_deviation_a"], A.c(0.0)), _ne(A, p["standard_deviation_b"], A.c(0.0))), gaussian_product),
    T("PiShape", ["bottom_left", "top_left", "top_right", "bottom_right"],      # (a flank may be a vertical edge: the case analysis of the S- and Z-shape decides on x first)
      lambda A, p: A.and_(_fin(A, p, "bottom_left", "top_left", "top_right", "bottom_right"), A.le(p["bottom_left"], p["top_left"]),
                          A.le(p["top_right"], p["bottom_right"])), pishape),
    T("Ramp", ["start", "end"], lambda A, p: A.and_(_fin(A, p, "start", "end"), _ne(A, p["start"], p["end"])), ramp,
      monotone=lambda A, p: (A.lt(p["start"], p["end"]), A.gt(p["start"], p["end"]))),
    T("Rectangle", ["start", "end"], lambda A, p: _nn(A, p, "start", "end"), rectangle),
    T("SemiEllipse", ["start", "end"], lambda A, p: A.and_(_fin(A, p, "start", "end"), _ne(A, p["start"], p["end"])), semiellipse),
    T("Sigmoid", ["inflection", "slope"], lambda A, p: A.and_(_fin(A, p, "inflection", "slope"), _ne(A, p["slope"], A.c(0.0))), sigmoid,
      monotone=lambda A, p: (A.gt(p["slope"], A.c(0.0)), A.lt(p["slope"], A.c(0.0)))),
    T("SigmoidDifference", ["left", "rising", "falling", "right"],
      lambda A, p: A.and_(_fin(A, p, "left", "rising", "falling", "right"), _ne(A, p["rising"], A.c(0.0)), _ne(A, p["falling"], A.c(0.0))), sigmoid_difference),
    T("SigmoidProduct", ["left", "rising", "falling", "right"],
      lambda A, p: A.and_(_fin(A, p, "left", "rising", "falling", "right"), _ne(A, p["rising"], A.c(0.0)), _ne(A, p["falling"], A.c(0.0))), sigmoid_product),
    T("Spike", ["center", "width"], lambda A, p: A.and_(_fin(A, p, "center", "width"), A.gt(p["width"], A.c(0.0))), spike),
    T("SShape", ["start", "end"], lambda A, p: A.and_(_fin(A, p, "start", "end"), A.le(p["start"], p["end"])), sshape,
      monotone=lambda A, p: (A.and_(), A.or_()), invertible=lambda A, p: A.lt(p["start"], p["end"])),
    T("Trapezoid", ["bottom_left", "top_left", "top_right", "bottom_right"],
      lambda A, p: A.and_(_nn(A, p, "bottom_left", "bottom_right"), _fin(A, p, "top_left", "top_right"), A.le(p["bottom_left"], p["top_left"]),
                          A.le(p["top_left"], p["top_right"]), A.le(p["top_right"], p["bottom_right"])), trapezoid),
    T("Triangle", ["left", "top", "right"],
      lambda A, p: A.and_(_nn(A, p, "left", "right"), _fin(A, p, "top"), A.le(p["left"], p["top"]), A.le(p["top"], p["right"])), triangle),
    T("ZShape", ["start", "end"], lambda A, p: A.and_(_fin(A, p, "start", "end"), A.le(p["start"], p["end"])), zshape,
      monotone=lambda A, p: (A.or_(), A.and_()), invertible=lambda A, p: A.lt(p["start"], p["end"])),
]}
MONOTONIC = [c for c, t in TERMS.items() if t.monotone]
# every class that must exist as a shape term (Discrete is handled by its own obligations; Linear/Function are not shape terms)
SHAPES = sorted(list(TERMS) + ["Discrete"])


# ------------------------------------------------------------------------------------------------ native replay
def _mk(fl, cls, vals):
    t = TERMS[cls]
    kw = {k: float(vals[k]) for k in t.fields()}
    return getattr(fl, cls)(name="t", **kw), kw


def _valid_concrete(FA, cls, kw):
    import numpy as np
    return bool(TERMS[cls].valid(FA, {k: np.float64(v) for k, v in kw.items()}))


def replay(fl, FA, clause, cls, vals):
    import numpy as np
    t = TERMS[cls]
    term, kw = _mk(fl, cls, vals)
    p = {k: np.float64(v) for k, v in kw.items()}
    if not _valid_concrete(FA, cls, kw):
        return {"failed": False, "skipped": "parameters not valid after concretisation"}
    x = np.float64(vals.get("x", 0.0)); x2 = np.float64(vals.get("x2", 0.0))
    mu = lambda v: np.float64(term.membership(v))
    desc = f"{cls}({', '.join(f'{k}={v!r}' for k, v in kw.items())})"
    h = p.get("height", np.float64(1.0))
    if clause == "closed_form":
        exp, obs = t.oracle(FA, p, x), mu(x)
        return {"failed": not FA.same(exp, obs, rel=1e-9, abs_=1e-9), "expected": float(exp), "observed": float(obs), "call": f"{desc}.membership({x!r})"}
    if clause == "nan_iff":
        obs = mu(x)
        return {"failed": bool(np.isnan(obs)) != bool(np.isnan(x)), "expected": "NaN iff x is NaN", "observed": float(obs), "call": f"{desc}.membership({x!r})"}
    if clause == "range":
        obs = mu(x)
        ok = bool(np.isnan(x)) or bool(-1e-12 <= obs <= h + 1e-12)
        return {"failed": not ok, "expected": f"in [0, {float(h)}]", "observed": float(obs), "call": f"{desc}.membership({x!r})"}
    if clause == "monotone":
        inc, dec = t.monotone(FA, p)
        lo, hi = min(x, x2), max(x, x2)
        a, b = mu(lo), mu(hi)
        ok = True
        if inc: ok = ok and bool(a <= b + 1e-12)
        if dec: ok = ok and bool(a >= b - 1e-12)
        return {"failed": not ok, "expected": "increasing" if inc else "decreasing", "observed": [float(a), float(b)], "call": f"{desc}.membership at {lo!r}, {hi!r}"}
    if clause == "elementwise":
        arr = np.array([x, x2, p[t.params[0]], np.inf, -np.inf, np.nan, 0.5 * (x + x2)])
        keep = arr.copy()
        try:
            got1 = np.asarray(term.membership(arr), dtype=float)
            if not np.array_equal(arr, keep, equal_nan=True):
                return {"failed": True, "expected": "argument array unchanged: " + str(keep.tolist()), "observed": arr.tolist(), "call": f"{desc}.membership(array) modified the caller's array"}
            got2 = np.asarray(term.membership(arr.reshape(1, -1)), dtype=float)
            exp = np.array([mu(v) for v in keep])
            ok = got1.shape == arr.shape and got2.shape == (1, len(arr)) and all(FA.same(u, v) for u, v in zip(got1, exp)) and all(FA.same(u, v) for u, v in zip(got2[0], exp))
            if ok:
                a32 = keep.astype(np.float32)
                got32 = np.asarray(term.membership(a32), dtype=float)
                exp32 = np.array([np.float64(term.membership(v)) for v in a32])
                if not (got32.shape == a32.shape and all(FA.same(u, v) for u, v in zip(got32, exp32))):
                    return {"failed": True, "expected": exp32.tolist(), "observed": got32.tolist(), "call": f"{desc}.membership(np.array({a32.tolist()}, dtype=np.float32))  # each element alone: [t.membership(v) for v in array]"}
            return {"failed": not ok, "expected": exp.tolist(), "observed": got1.tolist(), "call": f"{desc}.membership(array)"}
        except Exception as ex:  # noqa
            return {"failed": True, "expected": "element-wise result", "observed": f"{type(ex).__name__}: {ex}", "call": f"{desc}.membership(array)"}
    if clause == "ctor":
        flds = {k: float(getattr(term, k)) for k in kw}
        ok = all(FA.same(flds[k], kw[k], rel=0, abs_=0) for k in kw)
        return {"failed": not ok, "expected": kw, "observed": flds, "call": f"{desc} fields"}
    if clause.startswith("tsukamoto"):
        y = np.float64(vals.get("y", 0.5)); y2 = np.float64(vals.get("y2", 0.5))
        if not (0 < y < h and 0 < y2 < h):
            return {"failed": False, "skipped": "y outside (0,height)"}
        z = np.float64(term.tsukamoto(y))
        if clause == "tsukamoto.finite":
            return {"failed": not bool(np.isfinite(z)), "expected": "finite", "observed": float(z), "call": f"{desc}.tsukamoto({y!r})"}
        if clause == "tsukamoto.roundtrip":
            obs = mu(z)
            return {"failed": not FA.same(obs, y, rel=1e-6, abs_=1e-9), "expected": float(y), "observed": float(obs), "call": f"{desc}.membership(tsukamoto({y!r})={float(z)!r})"}
        if clause == "tsukamoto.monotone":
            inc, dec = t.monotone(FA, p)
            lo, hi = min(y, y2), max(y, y2)
            a, b = np.float64(term.tsukamoto(lo)), np.float64(term.tsukamoto(hi))
            ok = bool(a <= b + 1e-9) if inc else bool(a >= b - 1e-9)
            return {"failed": not ok, "expected": "increasing" if inc else "decreasing", "observed": [float(a), float(b)], "call": f"{desc}.tsukamoto at {lo!r}, {hi!r}"}
        if clause == "tsukamoto.elementwise":
            arr = np.array([y, y2, 0.5 * (y + y2)])
            keep = arr.copy()
            try:
                got = np.asarray(term.tsukamoto(arr), dtype=float)
                if not np.array_equal(arr, keep):
                    return {"failed": True, "expected": "argument array unchanged: " + str(keep.tolist()), "observed": arr.tolist(), "call": f"{desc}.tsukamoto(array) modified the caller's array"}
                exp = np.array([np.float64(term.tsukamoto(v)) for v in keep])
                ok = got.shape == arr.shape and all(FA.same(u, v) for u, v in zip(got, exp))
                if ok:
                    # an array of a narrower float type: still the element-wise results (each element given alone)
                    a32 = arr.astype(np.float32)
                    a32 = a32[(a32 > 0) & (a32 < np.float32(h))]
                    if a32.size:
                        got32 = np.asarray(term.tsukamoto(a32), dtype=float)
                        exp32 = np.array([np.float64(term.tsukamoto(v)) for v in a32])
                        if not (got32.shape == a32.shape and all(FA.same(u, v) for u, v in zip(got32, exp32))):
                            return {"failed": True, "expected": exp32.tolist(), "observed": got32.tolist(), "call": f"{desc}.tsukamoto(np.array({a32.tolist()}, dtype=np.float32))  # each element alone: [t.tsukamoto(v) for v in array]"}
                return {"failed": not ok, "expected": exp.tolist(), "observed": got.tolist(), "call": f"{desc}.tsukamoto(array)"}
            except Exception as ex:  # noqa
                return {"failed": True, "expected": "element-wise result", "observed": f"{type(ex).__name__}: {ex}", "call": f"{desc}.tsukamoto(array)"}
    raise KeyError(clause)


def search(fl, FA, clause, cls, vals, seed=0):
    """directed search around a model that did not reproduce exactly (A-REAL boundary effects): breakpoints and neighbours"""
    import numpy as np, itertools
    t = TERMS[cls]
    pts = set()
    for k in t.params:
        v = float(vals.get(k, 0.0))
        if np.isfinite(v):
            pts.update([v, np.nextafter(v, np.inf), np.nextafter(v, -np.inf)])
    ps = [float(vals.get(k, 0.0)) for k in t.params if np.isfinite(float(vals.get(k, 0.0)))]
    for a, b in itertools.combinations(ps, 2):
        pts.update([(a + b) / 2, a + (b - a) * 0.25, a + (b - a) * 0.75])
    pts.update([np.inf, -np.inf, float(vals.get("x", 0.0))])
    for x in sorted(pts):
        v2 = dict(vals); v2["x"] = x
        r = replay(fl, FA, clause, cls, v2)
        if r.get("failed"):
            return r
    return {"failed": False, "tried": len(pts)}


def replay_refuses(fl, FA, cls, monotonic, vals=None):
    """terms that are not monotonic refuse tsukamoto with RuntimeError"""
    if cls == "Activated":
        t = fl.Activated(fl.Ramp("r", 0.0, 1.0), 0.4, fl.Minimum())
    elif cls == "Aggregated":
        t = fl.Aggregated("a", 0.0, 1.0, fl.Maximum(), [fl.Activated(fl.Ramp("r", 0.0, 1.0), 0.4, fl.Minimum())])
    else:
        t = getattr(fl, cls)()
    try:
        z = t.tsukamoto(0.5)
    except RuntimeError:
        return {"failed": bool(monotonic), "expected": "a value" if monotonic else "RuntimeError", "observed": "RuntimeError", "call": f"{cls}().tsukamoto(0.5)"}
    except Exception as ex:  # noqa
        return {"failed": not monotonic, "expected": "RuntimeError", "observed": f"{type(ex).__name__}", "call": f"{cls}().tsukamoto(0.5)"}
    return {"failed": not monotonic, "expected": "RuntimeError (term is not monotonic)", "observed": repr(z), "call": f"{cls}().tsukamoto(0.5)"}


def replay_endpoints(fl, FA, vals=None, cls="Arc", which="end", seed=0, n=2000, start=None, end=None, **kw):
    """value of the real membership function AT an end point of the support, for many parameter values (or for the given pair): documented
    value (Arc: 0 at start, height at end; SemiEllipse: 0 at both ends), never NaN"""
    import math, random
    rng = random.Random(seed + (0 if which == "end" else 7))
    cases = []
    if start is not None and end is not None:
        cases.append((float(start), float(end), 1.0))
    if vals and "start" in vals and "end" in vals:
        cases.append((float(vals["start"]), float(vals["end"]), 1.0))
    for _ in range(n if not cases else 0):
        mag = 10 ** rng.uniform(-3, 6)
        a, b = rng.uniform(-mag, mag), rng.uniform(-mag, mag)
        if abs(a - b) < 1e-6:
            continue
        cases.append((a, b, rng.choice([1.0, 0.5, 0.25, rng.uniform(0.01, 1.0)])))
    done = 0
    for a, b, h in cases:
        t = getattr(fl, cls)("t", a, b, h)
        x = a if which == "start" else b
        want = h if (cls == "Arc" and which == "end") else 0.0
        got = float(t.membership(x))
        done += 1
        # the centre c = s + r is a rounded number: at an end point the root's argument r^2 - (x - c)^2 is off by about 2 r ulp(|c|), i.e. the value by
        # h * sqrt(2 ulp(|c|) / r) - visible for a narrow support far from the origin (A-REAL: rounding of VALUES is outside the statement; NaN is not rounding)
        tol = h * max(1e-6, 8.0 * math.sqrt(2.220446049250313e-16 * max(abs(a), abs(b)) / (abs(b - a) / 2.0)))
        if math.isnan(got) or abs(got - want) > tol:
            return {"failed": True, "class": f"endpoint:{cls}:{which}", "expected": f"{want!r} (the documented value at x = {which})", "observed": repr(got),
                    "call": f"fl.{cls}('t', {a!r}, {b!r}, {h!r}).membership({x!r})", "cases": done}
    return {"failed": False, "cases": done, "distinct": done}


def _sample_params(FA, t, rng, tries=200):
    """a valid parameter vector of the class: small numbers, equal neighbours (degenerate shapes), +-inf where the class accepts it, several heights"""
    import numpy as np
    pool = [-2.0, -1.0, -0.5, 0.0, 0.25, 0.5, 1.0, 2.0, 3.0, float("inf"), float("-inf")]
    for _ in range(tries):
        kw = {}
        for k in t.params:
            kw[k] = rng.choice(pool) if rng.random() < 0.7 else round(rng.uniform(-3, 3), 3)
        if rng.random() < 0.5 and len(t.params) >= 3:          # ordered shapes: sort the finite/infinite values so that the order constraints are often met
            vs = sorted(kw.values())
            kw = dict(zip(t.params, vs))
        if t.height:
            kw["height"] = rng.choice([1.0, 1.0, 0.5, 0.25, 0.8, 0.9995])
        if bool(t.valid(FA, {k: np.float64(v) for k, v in kw.items()})):
            return kw
    return None


def replay_sampled(fl, FA, cls=None, what="membership", seed=0, budget=40, vals=None, **kw_):
    """bounded stand-in / fallback for a function that left the verified subset: the REAL method against the documented closed form on sampled
    valid parameter vectors (degenerate and infinite ones included) x the breakpoints, their floating-point neighbours, midpoints, +-inf and NaN;
    element-wise on arrays (also arrays with nothing inside the support); and again after RE-CONFIGURING the same object (nothing remembered
    from the previous parameters)."""
    import random
    import numpy as np
    rng = random.Random(seed)
    classes = [cls] if cls else sorted(TERMS)
    cases = 0
    for c in classes:
        t = TERMS[c]
        if what == "tsukamoto" and not t.monotone:
            continue
        obj = None
        for it in range(budget):
            kw = _sample_params(FA, t, rng)
            if kw is None:
                break
            if what == "tsukamoto" and t.invertible is not None and not bool(t.invertible(FA, {k: np.float64(v) for k, v in kw.items()})):
                continue
            fin = [v for k, v in kw.items() if k != "height" and np.isfinite(v)]
            if what == "membership":
                pts = set(fin) | {np.nextafter(v, np.inf) for v in fin} | {np.nextafter(v, -np.inf) for v in fin}
                pts |= {(a + b) / 2 for a in fin for b in fin} | {2 * b - a for a in fin for b in fin} | {float("inf"), float("-inf"), float("nan"), round(rng.uniform(-4, 4), 3), 0.3}
                for x in sorted(pts, key=lambda v: (v != v, v)):
                    # closed form in doubles: conditioned like a square root next to a vertical tangent (Arc, SemiEllipse: ~1e-8 one ulp away from an end
                    # point), hence the absolute tolerance 1e-6; where the closed form itself is not evaluable (root of a rounding-negative number) no oracle
                    term_, kwf = _mk(fl, c, kw)
                    p_ = {k: np.float64(v) for k, v in kwf.items()}
                    exp, obs = t.oracle(FA, p_, np.float64(x)), np.float64(term_.membership(np.float64(x)))
                    cases += 1
                    if x == x and exp != exp:
                        continue
                    if not FA.same(exp, obs, rel=1e-9, abs_=1e-6) or (t.height and bool(np.isnan(obs)) != bool(np.isnan(x))):
                        return {"failed": True, "cases": cases, "expected": float(exp), "observed": float(obs),
                                "call": f"{c}({', '.join(f'{k}={v!r}' for k, v in kwf.items())}).membership({x!r})"}
                    # the same point as a plain Python float (parameters are Python floats here): same value, no exception
                    try:
                        obs2 = np.float64(term_.membership(float(x)))
                    except Exception as ex:  # noqa
                        return {"failed": True, "cases": cases, "expected": float(obs), "observed": f"{type(ex).__name__}: {ex}",
                                "call": f"{c}({', '.join(f'{k}={v!r}' for k, v in kwf.items())}).membership({float(x)!r}) with a Python float argument"}
                    if not FA.same(obs, obs2):
                        return {"failed": True, "cases": cases, "expected": float(obs), "observed": float(obs2),
                                "call": f"{c}({', '.join(f'{k}={v!r}' for k, v in kwf.items())}).membership({float(x)!r}) with a Python float argument against numpy.float64"}
                x, x2 = rng.choice(sorted(p for p in pts if p == p)), round(rng.uniform(-4, 4), 3)
                r = replay(fl, FA, "elementwise", c, dict(kw, x=x, x2=x2))
                cases += 1
                if r.get("failed"):
                    return dict(r, cases=cases)
                # an array with nothing finite in it, and a lone NaN next to points far outside
                term, _ = _mk(fl, c, kw)
                for arr in (np.array([np.nan, np.inf, -np.inf]), np.array([np.nan, 1e9, -1e9]), np.array([[np.nan, 0.3], [1e9, np.inf]])):
                    got = np.asarray(term.membership(arr.copy()), dtype=float)
                    exp = np.array([np.float64(term.membership(np.float64(v))) for v in arr.ravel()]).reshape(arr.shape)
                    cases += 1
                    if got.shape != arr.shape or not all(FA.same(u, v) for u, v in zip(got.ravel(), exp.ravel())):
                        return {"failed": True, "cases": cases, "expected": exp.tolist(), "observed": got.tolist() if got.shape == arr.shape else f"shape {got.shape}",
                                "call": f"{c}({', '.join(f'{k}={v!r}' for k, v in kw.items())}).membership({arr.tolist()}) against the same points one by one"}
                # the same object, re-configured: equals a fresh object with the new parameters
                if obj is None:
                    obj = term
                    obj.membership(np.float64(0.3))
                else:
                    for k, v in kw.items():
                        setattr(obj, k, v)
                    for x in list(sorted(p for p in pts if p == p))[:8]:
                        a, b = np.float64(obj.membership(np.float64(x))), np.float64(term.membership(np.float64(x)))
                        cases += 1
                        if not FA.same(a, b):
                            return {"failed": True, "cases": cases, "expected": float(b), "observed": float(a),
                                    "call": f"{c}.membership({x!r}) of an object evaluated earlier and then re-configured to {kw} against a fresh {c} with the same parameters"}
            else:
                h = kw.get("height", 1.0)
                ys = [h * f for f in (0.1, 0.25, 0.4, 0.5, 0.6, 0.75, 0.9, 0.999)] + [rng.uniform(0, h) for _ in range(3)]
                for y in ys:
                    for clause in ("tsukamoto.finite", "tsukamoto.roundtrip"):
                        r = replay(fl, FA, clause, c, dict(kw, y=y))
                        cases += 1
                        if r.get("failed"):
                            return dict(r, cases=cases)
                for y, y2 in zip(ys, ys[1:]):
                    for clause in ("tsukamoto.monotone", "tsukamoto.elementwise"):
                        r = replay(fl, FA, clause, c, dict(kw, y=y, y2=y2))
                        cases += 1
                        if r.get("failed"):
                            return dict(r, cases=cases)
    return {"failed": False, "cases": cases, "distinct": cases}
